"""Exhaustive generators of small-scope model families (every element is yielded; no sampling)."""
import itertools

KINDS4 = ("FS", "SS", "FF", "SF")
ALL_TASK_RULES = ("TSLACK", "EST", "SPT", "LPT", "FIFO", "LRPT", "SRPT", "LWRPT", "SWRPT")


def tname(i):
    return "T%d" % i


def flows(n, kinds=KINDS4, works=(1, 2), names=None):
    """All workflows on n tasks: for every pair i<j one link of `kinds` or none; every work vector."""
    pairs = [(i, j) for i in range(n) for j in range(i + 1, n)]
    opts = (None,) + tuple(kinds)
    for choice in itertools.product(opts, repeat=len(pairs)):
        links = [[i, j, k] for (i, j), k in zip(pairs, choice) if k is not None]
        for wv in itertools.product(works, repeat=n):
            yield {
                "tasks": [{"name": tname(i), "work": float(wv[i])} for i in range(n)],
                "links": links,
            }


def fs_dags(n):
    """All FS-only DAGs on n nodes (edge sets over pairs i<j)."""
    pairs = [(i, j) for i in range(n) for j in range(i + 1, n)]
    for mask in range(1 << len(pairs)):
        yield [[i, j, "FS"] for b, (i, j) in enumerate(pairs) if mask >> b & 1]


def team_layout(kind, n, cost=(1.0, 2.0, 3.0)):
    """Named worker layouts for n tasks T0..Tn-1 (facility-free)."""
    names = [tname(i) for i in range(n)]
    allt = list(range(n))
    full = {nm: 1.0 for nm in names}
    if kind == "POOL1":
        return [{"name": "TM0", "targets": allt, "workers": [{"name": "W0", "skills": dict(full), "cost": cost[0]}]}]
    if kind == "POOL2":
        return [
            {
                "name": "TM0",
                "targets": allt,
                "workers": [
                    {"name": "W0", "skills": dict(full), "cost": cost[0]},
                    {"name": "W1", "skills": dict(full), "cost": cost[1]},
                ],
            }
        ]
    if kind == "POOL3":
        return [{"name": "TM0", "targets": allt, "workers": [{"name": "W%d" % i, "skills": dict(full), "cost": cost[i]} for i in range(3)]}]
    if kind == "DED":
        return [
            {
                "name": "TM0",
                "targets": allt,
                "workers": [{"name": "W%d" % i, "skills": {names[i]: 1.0}, "cost": cost[i % len(cost)]} for i in range(n)],
            }
        ]
    if kind == "MIX":
        # W0 fast on T0, slow elsewhere; W1 zero on T0 (explicit 0), missing key for the last task
        w0 = {nm: 0.5 for nm in names}
        w0[names[0]] = 2.0
        w1 = {nm: 1.0 for nm in names}
        w1[names[0]] = 0.0
        if n > 1:
            del w1[names[-1]]
        w2 = {names[-1]: 1.5}
        return [
            {
                "name": "TM0",
                "targets": allt,
                "workers": [
                    {"name": "W0", "skills": w0, "cost": cost[0]},
                    {"name": "W1", "skills": w1, "cost": cost[1]},
                    {"name": "W2", "skills": w2, "cost": cost[2]},
                ],
            }
        ]
    if kind == "SOLO":
        return [
            {
                "name": "TM0",
                "targets": allt,
                "workers": [
                    {"name": "W0", "skills": dict(full), "cost": cost[0], "solo": True},
                    {"name": "W1", "skills": dict(full), "cost": cost[1]},
                    {"name": "W2", "skills": dict(full), "cost": cost[2]},
                ],
            }
        ]
    if kind == "TWOTEAM":
        # eligibility only through team targeting: TM0 targets all but the last task, TM1 only the last two
        return [
            {"name": "TM0", "targets": allt[:-1] if n > 1 else allt, "workers": [{"name": "W0", "skills": dict(full), "cost": cost[0]}]},
            {"name": "TM1", "targets": allt[-2:], "workers": [{"name": "W1", "skills": dict(full), "cost": cost[1]}]},
            {"name": "TM2", "targets": [], "workers": [{"name": "W2", "skills": dict(full), "cost": cost[2]}]},
        ]
    raise KeyError(kind)


def with_teams(flow, kind):
    sp = dict(flow)
    sp["teams"] = team_layout(kind, len(flow["tasks"]))
    return sp


def worker_names(spec):
    """IDs of the workers (equal to their names unless a spec gives separate ids)"""
    return [(w.get("id") or w["name"]) for tm in spec.get("teams", []) for w in tm.get("workers", [])]


def facility_names(spec):
    return [(f.get("id") or f["name"]) for wp in spec.get("workplaces", []) for f in wp.get("facilities", [])]


def seq_bound(spec):
    """Total sequential work bound: sum over tasks of ceil(work / slowest positive skill or unit rate) + 1."""
    import math

    tot = 0
    for ts in spec["tasks"]:
        rem = ts.get("work", 1.0) * (1.0 - (ts.get("progress") or 0.0))
        rates = []
        if ts.get("auto"):
            rates.append(ts.get("unit") or 1.0)
        for tm in spec.get("teams", []):
            for w in tm.get("workers", []):
                v = w.get("skills", {}).get(ts["name"], 0.0)
                if v > 1e-10:
                    fr = [1.0]
                    if ts.get("nf"):
                        fr = [
                            f.get("skills", {}).get(ts["name"], 0.0)
                            for wp in spec.get("workplaces", [])
                            for f in wp.get("facilities", [])
                            if f.get("skills", {}).get(ts["name"], 0.0) > 1e-10
                        ] or [1.0]
                    rates.append(v * min(fr))
        r = min(rates) if rates else 1.0
        tot += int(math.ceil(rem / r - 1e-9)) + 1
    return tot


# ------------------------------------------------------------------------------------------------
# FAC: models with components, workplaces and facilities
# ------------------------------------------------------------------------------------------------
def fac_specs(tier="quick", ns=None, only_single_task_components=False):
    """Exhaustive product of small facility/placement shapes (see DESIGN 2.3 'FAC')."""
    ns = ns or ((1, 2) if tier == "quick" else (1, 2, 3))
    link_shapes = {1: [[]], 2: [[], [[0, 1, "FS"]], [[0, 1, "SS"]]], 3: [[], [[0, 1, "FS"], [1, 2, "FS"]], [[0, 2, "FS"], [1, 2, "FS"]]]}
    works = {1: [(2.0,)], 2: [(2.0, 1.0)], 3: [(2.0, 1.0, 1.0)]}
    comp_maps = ["per-task", "shared", "parent-child", "extra"]
    if only_single_task_components:
        comp_maps = ["per-task", "extra"]
    wp_layouts = ["one-cap1", "one-cap2", "two-free", "two-conveyor"]
    fac_layouts = ["plain", "two", "solo", "fixed", "zero"]
    wk_layouts = ["both", "w1-none", "w0-only-first"]
    if tier == "quick":
        fac_layouts = ["plain", "two", "solo", "zero"]
        wk_layouts = ["both", "w0-only-first"]
    for n in ns:
        names = [tname(i) for i in range(n)]
        for links in link_shapes[n]:
            for wv in works[n]:
                for nfmask in range(1, 1 << n):
                    if tier == "quick" and n == 2 and nfmask == 2:
                        continue
                    nf = [bool(nfmask >> i & 1) for i in range(n)]
                    for cm in comp_maps:
                        if n == 1 and cm in ("shared",):
                            continue
                        for wl in wp_layouts:
                            for fl in fac_layouts:
                                for kl in wk_layouts:
                                    yield _fac_one(n, names, links, wv, nf, cm, wl, fl, kl)


def _fac_one(n, names, links, wv, nf, cm, wl, fl, kl):
    tasks = [{"name": names[i], "work": wv[i], "nf": nf[i]} for i in range(n)]
    # components
    if cm == "per-task":
        comps = [{"name": "C%d" % i, "tasks": [i]} for i in range(n)]
    elif cm == "shared":
        comps = [{"name": "C0", "tasks": list(range(n))}]
    elif cm == "parent-child":
        if n == 1:
            comps = [{"name": "C0", "tasks": [], "children": [1]}, {"name": "C1", "tasks": [0]}]
        else:
            comps = [{"name": "C0", "tasks": [n - 1], "children": [1]}, {"name": "C1", "tasks": list(range(n - 1))}]
    else:  # extra: per task + one component without tasks
        comps = [{"name": "C%d" % i, "tasks": [i]} for i in range(n)] + [{"name": "CX", "tasks": []}]
    # workplaces
    allt = list(range(n))
    if wl == "one-cap1":
        wps = [{"name": "WP0", "cap": 1.0, "targets": allt}]
    elif wl == "one-cap2":
        wps = [{"name": "WP0", "cap": 2.0, "targets": allt}]
    elif wl == "two-free":
        wps = [{"name": "WP0", "cap": 1.0, "targets": allt}, {"name": "WP1", "cap": 1.0, "targets": allt}]
    else:
        wps = [{"name": "WP0", "cap": 1.0, "targets": allt[:1] if n > 1 else allt}, {"name": "WP1", "cap": 1.0, "targets": allt, "inputs": [0]}]
    fid = 0
    for wp in wps:
        full = {nm: 1.0 for nm in names}
        if fl == "plain":
            facs = [{"skills": dict(full), "cost": 1.0}]
        elif fl == "two":
            facs = [{"skills": dict(full), "cost": 1.0}, {"skills": {nm: 2.0 for nm in names}, "cost": 2.0}]
        elif fl == "solo":
            facs = [{"skills": dict(full), "cost": 1.0, "solo": True}, {"skills": dict(full), "cost": 2.0}]
        elif fl == "fixed":
            facs = [{"skills": dict(full), "cost": 1.0}, {"skills": dict(full), "cost": 2.0}]
        else:  # zero / missing skills
            s0 = dict(full)
            s0[names[0]] = 0.0
            s1 = dict(full)
            if n > 1:
                del s1[names[-1]]
            facs = [{"skills": s0, "cost": 1.0}, {"skills": s1, "cost": 2.0}]
        for f in facs:
            f["name"] = "F%d" % fid
            fid += 1
        wp["facilities"] = facs
    if fl == "fixed":
        tasks[0]["fixf"] = [wps[0]["facilities"][1]["name"]] + ([wps[1]["facilities"][0]["name"]] if len(wps) > 1 else [])
    fnames = [f["name"] for wp in wps for f in wp["facilities"]]
    full = {nm: 1.0 for nm in names}
    if kl == "both":
        fs0 = {f: 1.0 for f in fnames}
        fs1 = {f: 1.0 for f in fnames}
    elif kl == "w1-none":
        fs0 = {f: 1.0 for f in fnames}
        fs1 = {}
    else:
        fs0 = {fnames[0]: 1.0}
        fs1 = {f: (0.0 if f == fnames[0] else 1.0) for f in fnames}
    teams = [
        {
            "name": "TM0",
            "targets": allt,
            "workers": [
                {"name": "W0", "skills": dict(full), "fskills": fs0, "cost": 1.0},
                {"name": "W1", "skills": dict(full), "fskills": fs1, "cost": 2.0},
            ],
        }
    ]
    return {"tasks": tasks, "links": [list(l) for l in links], "components": comps, "workplaces": wps, "teams": teams,
            "label": "fac:%d:%s:%s:%s:%s" % (n, cm, wl, fl, kl)}


def rule_sensitive_specs():
    """models whose result depends on the per-task priority rules, main workplaces and conveyor links"""
    out = []
    names = ["T0", "T1"]
    combos = [(w, f, "SSP" if (i % 2) else "FSS") for i, (w, f) in enumerate(itertools.product(("MW", "SSP", "VC", "HSV"), ("SSP", "VC", "HSV")))]
    for wrule, frule, wprule in combos:
        tasks = [{"name": "T0", "work": 3.0, "nf": True, "wrule": wrule, "frule": frule, "wprule": wprule},
                 {"name": "T1", "work": 2.0, "nf": True, "wrule": wrule, "frule": frule, "wprule": wprule}]
        comps = [{"name": "C0", "tasks": [0]}, {"name": "C1", "tasks": [1]}]
        wps = [{"name": "WP0", "cap": 1.0, "targets": [0, 1], "facilities": [{"name": "F0", "skills": {"T0": 1.0, "T1": 1.0}, "cost": 3.0}, {"name": "F1", "skills": {"T0": 2.0, "T1": 0.5}, "cost": 1.0}]},
               {"name": "WP1", "cap": 2.0, "targets": [0, 1], "inputs": [0], "facilities": [{"name": "F2", "skills": {"T0": 0.5, "T1": 2.0}, "cost": 2.0}]}]
        fsk = {"F0": 1.0, "F1": 1.0, "F2": 1.0}
        teams = [{"name": "TM0", "targets": [0, 1], "workers": [
            {"name": "W0", "skills": {"T0": 1.0, "T1": 2.0}, "fskills": dict(fsk), "cost": 3.0, "mainwp": "WP1"},
            {"name": "W1", "skills": {"T0": 2.0, "T1": 0.5}, "fskills": dict(fsk), "cost": 1.0, "mainwp": "WP0"},
            {"name": "W2", "skills": {"T0": 0.5, "T1": 1.0, "x": 5.0}, "fskills": dict(fsk), "cost": 2.0}]}]
        out.append({"tasks": tasks, "links": [], "components": comps, "workplaces": wps, "teams": teams, "label": "rules:%s:%s:%s" % (wrule, frule, wprule)})
    # one facility task worked by two (worker, facility) pairs whose pairing depends on the rules: the order inside the
    # allocation lists differs from the order inside the team / workplace, and the pairs have different skill products
    for wrule, frule in itertools.product(("HSV", "SSP", "VC"), ("SSP", "HSV", "VC")):
        tasks = [{"name": "T0", "work": 9.0, "nf": True, "wrule": wrule, "frule": frule}, {"name": "T1", "work": 2.0}]
        comps = [{"name": "C0", "tasks": [0]}]
        wps = [{"name": "WP0", "cap": 1.0, "targets": [0], "facilities": [{"name": "F0", "skills": {"T0": 1.0}, "cost": 2.0}, {"name": "F1", "skills": {"T0": 2.0}, "cost": 1.0}]}]
        teams = [{"name": "TM0", "targets": [0, 1], "workers": [
            {"name": "W0", "skills": {"T0": 1.0, "x": 3.0}, "fskills": {"F0": 1.0, "F1": 1.0}, "cost": 1.0},
            {"name": "W1", "skills": {"T0": 2.0}, "fskills": {"F0": 1.0, "F1": 1.0}, "cost": 2.0},
            {"name": "W2", "skills": {"T1": 1.0}, "fskills": {}, "cost": 1.0}]}]
        out.append({"tasks": tasks, "links": [], "components": comps, "workplaces": wps, "teams": teams, "label": "pairs:%s:%s" % (wrule, frule)})
    return out


def auto_component_specs():
    """a component whose tasks include an automatic one: assemble (needs facility) -> cure (automatic) -> inspect, in a shop"""
    out = []
    for cure_work, unit in ((2.0, None), (1.0, 0.5)):
        for link in ("FS", "SS"):
            for two_comp in (False, True):
                names = ["T0", "T1", "T2"]
                tasks = [{"name": "T0", "work": 2.0, "nf": True}, {"name": "T1", "work": cure_work, "auto": True, "unit": unit}, {"name": "T2", "work": 1.0}]
                links = [[0, 1, link], [1, 2, "FS"]]
                comps = [{"name": "C0", "tasks": [0, 1, 2]}] if not two_comp else [{"name": "C0", "tasks": [0, 1]}, {"name": "C1", "tasks": [2]}]
                wps = [{"name": "WP0", "cap": 2.0, "targets": [0, 1, 2], "facilities": [{"name": "F0", "skills": {"T0": 1.0}, "cost": 1.0}]}]
                teams = [{"name": "TM0", "targets": [0, 2], "workers": [{"name": "W0", "skills": {"T0": 1.0, "T2": 1.0}, "fskills": {"F0": 1.0}, "cost": 1.0}]}]
                out.append({"tasks": tasks, "links": links, "components": comps, "workplaces": wps, "teams": teams, "label": "autocomp:%s:%s:%s" % (cure_work, link, two_comp)})
    return out


def two_team_workplace_spec():
    """two teams (an even number matters for anything done 'once per team') and a workplace with non-palindromic logs"""
    names = ["T0", "T1", "T2"]
    return {"tasks": [{"name": "T0", "work": 2.0, "nf": True, "due": 3}, {"name": "T1", "work": 1.0, "due": 6}, {"name": "T2", "work": 3.0, "nf": True}], "links": [[0, 1, "FS"], [0, 2, "FS"]],
            "components": [{"name": "C0", "tasks": [0]}, {"name": "C2", "tasks": [2]}],
            "workplaces": [{"name": "WP0", "cap": 1.0, "targets": [0, 2], "facilities": [{"name": "F0", "skills": {"T0": 1.0, "T2": 1.0}, "cost": 2.0}]}],
            "teams": [{"name": "TM0", "targets": [0, 1], "workers": [{"name": "W0", "skills": {"T0": 1.0, "T1": 1.0}, "fskills": {"F0": 1.0}, "cost": 1.0}]},
                      {"name": "TM1", "targets": [1, 2], "workers": [{"name": "W1", "skills": {"T1": 1.0, "T2": 1.0}, "fskills": {"F0": 1.0}, "cost": 3.0}]}]}


def same_name_task_specs():
    """two different tasks carrying the same name (IDs differ), two teams each assigned to one of them"""
    out = []
    for links in ([], [[0, 1, "FS"]]):
        for w1skill in (1.0, 2.0):
            tasks = [{"name": "weld", "id": "T0", "work": 2.0}, {"name": "weld", "id": "T1", "work": 2.0}, {"name": "paint", "id": "T2", "work": 1.0}]
            teams = [{"name": "TM0", "targets": [0, 2], "workers": [{"name": "W0", "skills": {"weld": 1.0, "paint": 1.0}, "cost": 1.0}]},
                     {"name": "TM1", "targets": [1], "workers": [{"name": "W1", "skills": {"weld": w1skill}, "cost": 2.0}]}]
            out.append({"tasks": tasks, "links": links, "teams": teams, "label": "samename:%s:%s" % (len(links), w1skill)})
    return out


def unsorted_absence_specs():
    """resources whose own absence lists are written unsorted / with repeated steps"""
    out = []
    for wabs, fabs in (([3, 0], []), ([2, 0, 1], [1, 0]), ([1, 1, 0], [4, 2]), ([5, 1, 0], [0])):
        names = ["T0", "T1"]
        full = {nm: 1.0 for nm in names}
        sp = {"tasks": [{"name": "T0", "work": 3.0, "nf": True}, {"name": "T1", "work": 2.0}], "links": [],
              "components": [{"name": "C0", "tasks": [0]}],
              "workplaces": [{"name": "WP0", "cap": 1.0, "targets": [0], "facilities": [{"name": "F0", "skills": {"T0": 1.0}, "cost": 1.0, "absence": list(fabs)}, {"name": "F1", "skills": {"T0": 1.0}, "cost": 1.0}]}],
              "teams": [{"name": "TM0", "targets": [0, 1], "workers": [{"name": "W0", "skills": dict(full), "fskills": {"F0": 1.0, "F1": 1.0}, "cost": 1.0, "absence": list(wabs)},
                                                                      {"name": "W1", "skills": dict(full), "fskills": {"F0": 1.0, "F1": 1.0}, "cost": 2.0, "absence": [2]}]}],
              "label": "unsorted-absence:%s:%s" % (wabs, fabs)}
        out.append(sp)
    return out


def auto_in_workplace_specs():
    """an automatic task that has no component but is listed among a workplace's targeted tasks"""
    out = []
    for head in (True, False):
        tasks = [{"name": "T0", "work": 2.0, "nf": True}, {"name": "T1", "work": 2.0, "auto": True}, {"name": "T2", "work": 1.0}]
        links = [[1, 2, "FS"]] if head else [[0, 1, "FS"], [1, 2, "FS"]]
        sp = {"tasks": tasks, "links": links, "components": [{"name": "C0", "tasks": [0]}],
              "workplaces": [{"name": "WP0", "cap": 1.0, "targets": [0, 1, 2], "facilities": [{"name": "F0", "skills": {"T0": 1.0}, "cost": 1.0}]}],
              "teams": [{"name": "TM0", "targets": [0, 2], "workers": [{"name": "W0", "skills": {"T0": 1.0, "T2": 1.0}, "fskills": {"F0": 1.0}, "cost": 1.0}]}],
              "label": "auto-in-workplace:%s" % head}
        out.append(sp)
    return out


def shared_child_spec():
    """product DAG: top1 -> {k1, shared}, top2 -> {shared, k2}; 'shared' has two parents; plus an empty component"""
    names = ["T0", "T1", "T2", "T3", "T4"]
    tasks = [{"name": "T0", "work": 2.0}, {"name": "T1", "work": 1.0}, {"name": "T2", "work": 2.0}, {"name": "T3", "work": 1.0}, {"name": "T4", "work": 1.0, "due": 9}]
    links = [[0, 3, "FS"], [1, 3, "FS"], [1, 4, "FS"], [2, 4, "FS"]]
    comps = [{"name": "TOP1", "tasks": [3], "children": [2, 3]}, {"name": "TOP2", "tasks": [4], "children": [3, 4]},
             {"name": "K1", "tasks": [0]}, {"name": "SHARED", "tasks": [1]}, {"name": "K2", "tasks": [2]}, {"name": "EMPTY", "tasks": []}]
    full = {nm: 1.0 for nm in names}
    teams = [{"name": "TM0", "targets": [0, 1, 2, 3, 4], "workers": [{"name": "W0", "skills": dict(full), "cost": 1.0}, {"name": "W1", "skills": dict(full), "cost": 2.0}]}]
    return {"tasks": tasks, "links": links, "components": comps, "teams": teams, "label": "shared-child"}


def double_link_specs():
    """the same predecessor linked twice with different kinds (the classic SS+FF pair), both orders of declaration"""
    out = []
    for kinds in (("SS", "FF"), ("FF", "SS"), ("FS", "FF"), ("SS", "SF"), ("SF", "SS"), ("SS", "FS"), ("FF", "FS"), ("SF", "FS")):
        for wv in ((3.0, 1.0), (1.0, 3.0), (2.0, 2.0)):
            tasks = [{"name": "T0", "work": 1.0}, {"name": "T1", "work": wv[0]}, {"name": "T2", "work": wv[1]}]
            links = [[0, 1, "FS"], [1, 2, kinds[0]], [1, 2, kinds[1]]]
            for lay in ("DED", "POOL2"):
                sp = with_teams({"tasks": tasks, "links": links}, lay)
                sp["label"] = "double-link:%s+%s" % kinds
                out.append(sp)
    return out


def team_hierarchy_spec(rates=(7.0, 3.0, 2.0)):
    """division > department > section, one worker and one task each"""
    tasks = [{"name": "T0", "work": 2.0}, {"name": "T1", "work": 3.0}, {"name": "T2", "work": 4.0}]
    teams = [{"name": "DIV", "targets": [0], "workers": [{"name": "W0", "skills": {"T0": 1.0}, "cost": rates[0]}]},
             {"name": "DEP", "targets": [1], "parent": 0, "workers": [{"name": "W1", "skills": {"T1": 1.0}, "cost": rates[1]}]},
             {"name": "SEC", "targets": [2], "parent": 1, "workers": [{"name": "W2", "skills": {"T2": 1.0}, "cost": rates[2]}]}]
    wps = [{"name": "SITE", "cap": 4.0, "targets": [], "facilities": []},
           {"name": "HALL", "cap": 2.0, "targets": [], "parent": 0, "facilities": [{"name": "F0", "skills": {}, "cost": 1.0}]},
           {"name": "BAY", "cap": 1.0, "targets": [], "parent": 1, "facilities": [{"name": "F1", "skills": {}, "cost": 2.0}]}]
    return {"tasks": tasks, "links": [], "teams": teams, "workplaces": wps, "label": "team-hierarchy"}


def three_level_product_specs():
    """part C -> sub-assembly P -> final assembly G, each processed in its own workplace before the next level is assembled"""
    out = []
    for cap_asm in (3.0, 1.0):
        names = ["T0", "T1", "T2", "T3"]
        tasks = [{"name": "T0", "work": 1.0, "nf": True}, {"name": "T1", "work": 1.0, "nf": True}, {"name": "T2", "work": 2.0, "nf": True}, {"name": "T3", "work": 1.0, "nf": True}]
        links = [[0, 1, "FS"], [1, 2, "FS"], [2, 3, "FS"]]
        comps = [{"name": "G", "tasks": [2, 3], "children": [1]}, {"name": "P", "tasks": [1], "children": [2]}, {"name": "C", "tasks": [0]}]
        full = {nm: 1.0 for nm in names}
        wps = [{"name": "WPART", "cap": 3.0, "targets": [0], "facilities": [{"name": "F0", "skills": dict(full)}]},
               {"name": "WSUB", "cap": 3.0, "targets": [1], "facilities": [{"name": "F1", "skills": dict(full)}]},
               {"name": "WASM", "cap": cap_asm, "targets": [2], "facilities": [{"name": "F2", "skills": dict(full)}]},
               {"name": "WPAINT", "cap": 3.0, "targets": [3], "facilities": [{"name": "F3", "skills": dict(full)}]}]
        teams = [{"name": "TM0", "targets": [0, 1, 2, 3], "workers": [{"name": "W0", "skills": dict(full), "fskills": {"F0": 1.0, "F1": 1.0, "F2": 1.0, "F3": 1.0}}]}]
        out.append({"tasks": tasks, "links": links, "components": comps, "workplaces": wps, "teams": teams, "label": "three-level:%s" % cap_asm})
    return out


def many_components_spec(k):
    """k task-less or simultaneously finishing components listed consecutively, followed by one whose task starts in that step"""
    tasks = [{"name": "T%d" % i, "work": 1.0} for i in range(k)] + [{"name": "T%d" % k, "work": 2.0}]
    links = [[0, k, "FS"]]
    comps = [{"name": "C%d" % i, "tasks": [i]} for i in range(k)] + [{"name": "C%d" % k, "tasks": [k]}]
    names = [t["name"] for t in tasks]
    teams = [{"name": "TM0", "targets": list(range(k + 1)), "workers": [{"name": "W%d" % i, "skills": {names[i]: 1.0}} for i in range(k + 1)]}]
    return {"tasks": tasks, "links": links, "components": comps, "teams": teams, "label": "many-components:%d" % k}


def idle_component_spec():
    """component c carries the first and the last task of a chain; it is idle while another component's task runs"""
    tasks = [{"name": "T0", "work": 2.0}, {"name": "T1", "work": 3.0}, {"name": "T2", "work": 2.0}]
    links = [[0, 1, "FS"], [1, 2, "FS"]]
    comps = [{"name": "C0", "tasks": [0, 2]}, {"name": "CX", "tasks": [1]}]
    return with_teams({"tasks": tasks, "links": links, "components": comps, "label": "idle-component"}, "POOL1")


def float_noise_spec():
    """work 0.3 done at 0.1 per step (remaining work hits -2.8e-17), then kept WORKING by an FF input"""
    tasks = [{"name": "T0", "work": 6.0}, {"name": "T1", "work": 0.3}, {"name": "T2", "work": 0.7}]
    links = [[0, 1, "FF"], [0, 2, "FF"]]
    teams = [{"name": "TM0", "targets": [0, 1, 2], "workers": [{"name": "W0", "skills": {"T0": 1.0}, "cost": 1.0}, {"name": "W1", "skills": {"T1": 0.1}, "cost": 1.0}, {"name": "W2", "skills": {"T2": 0.1}, "cost": 1.0}]}]
    return {"tasks": tasks, "links": links, "teams": teams, "label": "float-noise"}


# ------------------------------------------------------------------------------------------------
# families added after the fifth round of seeded changes
# ------------------------------------------------------------------------------------------------
def absence_sequences(nsteps=5, maxlen=3):
    """every list of <= maxlen steps out of 0..nsteps-1 as a caller may write it: any order, repeated entries allowed"""
    out = []
    for k in range(1, maxlen + 1):
        out.extend(list(s) for s in itertools.product(range(nsteps), repeat=k))
    return out


def absence_probe_models():
    """small models in which something becomes allocatable at several different steps"""
    out = []
    out.append(with_teams({"tasks": [{"name": "T0", "work": 2.0}, {"name": "T1", "work": 1.0}], "links": [[0, 1, "FS"]]}, "POOL1"))
    out.append(with_teams({"tasks": [{"name": "T0", "work": 1.0}, {"name": "T1", "work": 2.0}, {"name": "T2", "work": 1.0}], "links": [[0, 1, "FS"], [0, 2, "SS"]]}, "POOL2"))
    out.append(with_teams({"tasks": [{"name": "T0", "work": 2.0}, {"name": "T1", "work": 2.0, "auto": True, "unit": 0.5}, {"name": "T2", "work": 1.0}], "links": [[0, 2, "FS"]]}, "DED"))
    for sp in fac_specs("quick"):
        if sp["label"] == "fac:2:per-task:one-cap2:two:both":
            out.append(sp)
    return out


def float_residue_specs():
    """work consumed in inexact decimal fractions that leaves a tiny POSITIVE remainder (2.1 - 3*0.7 = 2.2e-16, 1.0 - 10*0.1, 3 - 10*0.3),
    with an FS successor so that a late finish delays something; and a dyadic control"""
    out = []
    for work, skill in ((2.1, 0.7), (1.0, 0.1), (3.0, 0.3), (1.5, 0.5)):
        tasks = [{"name": "T0", "work": work}, {"name": "T1", "work": 1.0}]
        teams = [{"name": "TM0", "targets": [0, 1], "workers": [{"name": "W0", "skills": {"T0": skill}, "cost": 1.0}, {"name": "W1", "skills": {"T1": 1.0}, "cost": 1.0}]}]
        out.append({"tasks": tasks, "links": [[0, 1, "FS"]], "teams": teams, "label": "float-residue:%s/%s" % (work, skill)})
    return out


def auto_placement_specs():
    """automatic tasks bound to a component that has to be placed, in projects where no worker is FREE at that moment
    (every worker busy on a task that waits for the automatic one, or no workers at all)"""
    out = []
    for k01 in ("FS", "SS"):
        for k12 in ("FF", "SF", "FS"):
            tasks = [{"name": "T0", "work": 2.0, "auto": True}, {"name": "T1", "work": 2.0, "auto": True}, {"name": "T2", "work": 1.0}]
            sp = {"tasks": tasks, "links": [[0, 1, k01], [1, 2, k12]], "components": [{"name": "C0", "tasks": [1]}],
                  "workplaces": [{"name": "WP0", "cap": "inf", "targets": [1], "facilities": [{"name": "F0", "skills": {"T1": 1.0}}]}],  # (a component is only placed where some facility is skilled for the task)
                  "teams": [{"name": "TM0", "targets": [2], "workers": [{"name": "W0", "skills": {"T2": 1.0}, "cost": 1.0}]}], "label": "auto-placement:%s:%s" % (k01, k12)}
            out.append(sp)
    for link in ([], [[0, 1, "FS"]]):
        tasks = [{"name": "T0", "work": 2.0, "auto": True}, {"name": "T1", "work": 1.0, "auto": True, "unit": 0.5}]
        out.append({"tasks": tasks, "links": link, "components": [{"name": "C0", "tasks": [0]}, {"name": "C1", "tasks": [1]}],
                    "workplaces": [{"name": "WP0", "cap": "inf", "targets": [0, 1], "facilities": [{"name": "F0", "skills": {"T0": 1.0, "T1": 1.0}}]}], "teams": [], "label": "auto-placement:no-workers:%d" % len(link)})
    return out


def same_name_workplace_specs():
    """two copied production lines: workplaces (and their tasks) carry the same names, IDs differ"""
    out = []
    for same_wp, same_task in ((True, True), (True, False), (False, True)):
        tn = ("weld", "weld") if same_task else ("weld", "bond")
        tasks = [{"name": tn[0], "id": "T0", "work": 2.0, "nf": True}, {"name": tn[1], "id": "T1", "work": 2.0, "nf": True}]
        sk = {tn[0]: 1.0, tn[1]: 1.0}
        wps = [{"name": "line", "id": "WP0", "cap": 1.0, "targets": [0], "facilities": [{"name": "F0", "skills": dict(sk)}, {"name": "F1", "skills": dict(sk)}]},
               {"name": "line" if same_wp else "line2", "id": "WP1", "cap": 1.0, "targets": [1], "facilities": [{"name": "F2", "skills": dict(sk)}]}]
        fsk = {"F0": 1.0, "F1": 1.0, "F2": 1.0}
        pooled = [{"name": "TM0", "targets": [0, 1], "workers": [{"name": "W0", "skills": dict(sk), "fskills": dict(fsk)}, {"name": "W1", "skills": dict(sk), "fskills": dict(fsk)}]}]
        per_line = [{"name": "TM0", "targets": [0], "workers": [{"name": "W0", "skills": dict(sk), "fskills": dict(fsk)}]},
                    {"name": "TM1", "targets": [1], "workers": [{"name": "W1", "skills": dict(sk), "fskills": dict(fsk)}]}]  # one crew per line: a machine of the first line stays free
        for tname_, teams in (("pooled", pooled), ("per-line", per_line)):
            for order in (None, [1, 0]):
                sp = {"tasks": tasks, "links": [], "components": [{"name": "C0", "tasks": [0]}, {"name": "C1", "tasks": [1]}], "workplaces": wps, "teams": teams,
                      "label": "same-name-workplaces:%s:%s:%s:%s" % (same_wp, same_task, tname_, order)}
                if order:
                    sp["order"] = order
                out.append(sp)
    return out


def waiting_component_spec():
    """component C0 carries T0 -> T1; T1 has to wait for its only worker, who is busy on T2: C0 is WORKING, then READY, then WORKING"""
    tasks = [{"name": "T0", "work": 1.0}, {"name": "T1", "work": 1.0}, {"name": "T2", "work": 3.0}]
    teams = [{"name": "TM0", "targets": [0, 1, 2], "workers": [{"name": "W0", "skills": {"T0": 1.0}, "cost": 1.0}, {"name": "W1", "skills": {"T1": 1.0, "T2": 1.0}, "cost": 2.0}]}]
    return {"tasks": tasks, "links": [[0, 1, "FS"]], "components": [{"name": "C0", "tasks": [0, 1]}, {"name": "CX", "tasks": [2]}], "teams": teams, "label": "waiting-component"}


def shared_id_spec():
    """people "1","2" and machines "1","2": worker IDs and facility IDs are separate name spaces"""
    for sp0 in fac_specs("quick"):
        if sp0["label"] == "fac:2:per-task:one-cap2:two:both":
            sp = dict(sp0)
            sp["teams"] = [dict(tm, workers=[dict(w, id=str(i + 1)) for i, w in enumerate(tm["workers"])]) for tm in sp0["teams"]]
            k = 0
            wps = []
            for wp in sp0["workplaces"]:
                fs = []
                for f in wp["facilities"]:
                    k += 1
                    fs.append(dict(f, id=str(k)))
                wps.append(dict(wp, facilities=fs))
            sp["workplaces"] = wps
            sp["tasks"] = [dict(t, work=3.0) for t in sp0["tasks"]]  # long enough to be saved while somebody is allocated
            sp["label"] = "shared-ids"
            return sp
    raise KeyError("base model not found")


def large_amount_specs():
    """work amounts of the order 1e8..1e9 whose last residue (0.02) is far above the absolute finish tolerance but tiny relative to the amount"""
    out = []
    for W, s0, s1 in ((5e8, 1.25e8, 1.25e8 - 0.01), (1e9, 5e8, 5e8 - 0.25)):
        tasks = [{"name": "T0", "work": W}, {"name": "T1", "work": 1.0}]
        teams = [{"name": "TM0", "targets": [0, 1], "workers": [{"name": "W0", "skills": {"T0": s0}, "cost": 1.0}, {"name": "W1", "skills": {"T0": s1, "T1": 1.0}, "cost": 1.0}]}]
        out.append({"tasks": tasks, "links": [[0, 1, "FS"]], "teams": teams, "label": "large-amount:%g" % W})
    return out


def mixed_wiring_specs():
    """a task targeted by two teams, one wired with the helper (both sides know) and one through the constructor keyword only"""
    out = []
    for wv in ((3, 1), (1, 3), (2, 2)):
        for ctor_team in (0, 1):
            tasks = [{"name": "T0", "work": float(wv[0])}, {"name": "T1", "work": float(wv[1])}]
            teams = [{"name": "TM0", "targets": [0, 1], "workers": [{"name": "W0", "skills": {"T0": 1.0, "T1": 1.0}, "cost": 1.0}]},
                     {"name": "TM1", "targets": [0, 1], "workers": [{"name": "W1", "skills": {"T0": 1.0, "T1": 1.0}, "cost": 2.0}]}]
            teams[ctor_team]["wire"] = "ctor"
            out.append({"tasks": tasks, "links": [], "teams": teams, "label": "mixed-wiring:%s:%d" % (wv, ctor_team)})
            # the helper-wired team serves one task only: the other task is known to the constructor-wired team alone
            for only in (0, 1):
                t2 = [dict(tm) for tm in teams]
                t2[1 - ctor_team]["targets"] = [only]
                out.append({"tasks": tasks, "links": [], "teams": t2, "label": "mixed-wiring:%s:%d:only%d" % (wv, ctor_team, only)})
    return out


def float_order_specs():
    """a worker whose three non-dyadic skills add up to 0.6 or 0.6000000000000001 depending on the order of addition (entered T2, T1, T0;
    alphabetical order is the other one), competing with a worker whose total is exactly 0.6; solo workers, so the order decides"""
    out = []
    for wrule in ("SSP", "MW"):
        for first in (0, 1):
            tasks = [{"name": "T0", "work": 1.2, "wrule": wrule}, {"name": "T1", "work": 0.4, "wrule": wrule}, {"name": "T2", "work": 0.9, "wrule": wrule}]
            wa = {"name": "W0", "skills": {"T2": 0.3, "T1": 0.2, "T0": 0.1}, "solo": True, "cost": 1.0}
            wb = {"name": "W1", "skills": {"T0": 0.6}, "solo": True, "cost": 2.0}
            ws = [wa, wb] if first == 0 else [wb, wa]
            out.append({"tasks": tasks, "links": [[0, 1, "FS"]], "teams": [{"name": "TM0", "targets": [0, 1, 2], "workers": ws}], "label": "float-order:%s:%d" % (wrule, first)})
    return out


def waiting_assembly_specs():
    """assembly P (size 2) whose finished parts c1, c2 (size 1 each) stay parked in the parts area (capacity 2) because the assembly hall
    is partly taken by an unrelated long job D; another component E wants the parts area meanwhile"""
    out = []
    for d_work, hall_cap in ((8.0, 2.0), (4.0, 2.0), (8.0, 3.0)):
        tasks = [{"name": "part", "id": "T0", "work": 2.0, "nf": True, "fixw": ["W0"]}, {"name": "part", "id": "T1", "work": 2.0, "nf": True, "fixw": ["W1"]},
                 {"name": "assemble", "id": "T2", "work": 2.0, "nf": True, "fixw": ["W2"]}, {"name": "other", "id": "T3", "work": d_work, "nf": True, "fixw": ["W3"]},
                 {"name": "part", "id": "T4", "work": 3.0, "nf": True, "fixw": ["W4"]}]
        comps = [{"name": "P", "space": 2.0, "tasks": [2], "children": [1, 2]}, {"name": "c1", "space": 1.0, "tasks": [0]}, {"name": "c2", "space": 1.0, "tasks": [1]},
                 {"name": "D", "space": 1.0, "tasks": [3]}, {"name": "E", "space": 1.0, "tasks": [4]}]
        wps = [{"name": "Wc", "cap": 2.0, "targets": [0, 1, 4], "facilities": [{"name": "fc1", "skills": {"part": 1.0}}, {"name": "fc2", "skills": {"part": 1.0}}]},
               {"name": "W", "cap": hall_cap, "targets": [2, 3], "facilities": [{"name": "fa1", "skills": {"assemble": 1.0}}, {"name": "fa2", "skills": {"other": 1.0}}]}]
        sk = {"part": 1.0, "assemble": 1.0, "other": 1.0}
        fsk = {"fc1": 1.0, "fc2": 1.0, "fa1": 1.0, "fa2": 1.0}
        teams = [{"name": "TM0", "targets": [0, 1, 2, 3, 4], "workers": [{"name": "W%d" % i, "skills": dict(sk), "fskills": dict(fsk)} for i in range(5)]}]
        out.append({"tasks": tasks, "links": [[0, 2, "FS"], [1, 2, "FS"]], "components": comps, "workplaces": wps, "teams": teams, "label": "waiting-assembly:%s:%s" % (d_work, hall_cap)})
    return out


# ------------------------------------------------------------------------------------------------
# families added after the seventh round of seeded changes
# ------------------------------------------------------------------------------------------------
def sequential_facility_specs():
    """one component with two sequential facility tasks; the workplace of the first task is also assigned to the second task but has no
    facility for it (and more free space, so it sorts first under the default rule); the second task's real workplace is elsewhere"""
    out = []
    for cap0, cap1 in ((3.0, 1.0), (1.0, 3.0), (2.0, 2.0)):
        for wprule in ("FSS", "SSP"):
            tasks = [{"name": "T0", "work": 2.0, "nf": True, "wprule": wprule}, {"name": "T1", "work": 2.0, "nf": True, "wprule": wprule}, {"name": "T2", "work": 1.0}]
            wps = [{"name": "WP0", "cap": cap0, "targets": [0, 1], "facilities": [{"name": "F0", "skills": {"T0": 1.0}, "cost": 1.0}]},
                   {"name": "WP1", "cap": cap1, "targets": [1], "facilities": [{"name": "F1", "skills": {"T1": 1.0}, "cost": 2.0}]}]
            teams = [{"name": "TM0", "targets": [0, 1, 2], "workers": [{"name": "W0", "skills": {"T0": 1.0, "T1": 1.0, "T2": 1.0}, "fskills": {"F0": 1.0, "F1": 1.0}, "cost": 1.0}]}]
            out.append({"tasks": tasks, "links": [[0, 1, "FS"], [1, 2, "FS"]], "components": [{"name": "C0", "tasks": [0, 1]}], "workplaces": wps, "teams": teams,
                        "label": "sequential-facility:%s:%s:%s" % (cap0, cap1, wprule)})
    return out


def ff_held_component_specs():
    """a component whose first facility task (in workplace A) has run out of work but is held WORKING by an FF/SF link to a longer task of
    another component, while its second task (SS-linked, workplace B) is already READY"""
    out = []
    for hold in ("FF", "SF"):
        for nf1 in (True, False):
            tasks = [{"name": "T0", "work": 2.0, "nf": True}, {"name": "T1", "work": 2.0, "nf": nf1}, {"name": "T2", "work": 6.0, "nf": True}]
            links = [[2, 0, hold], [0, 1, "SS"]]
            comps = [{"name": "C0", "tasks": [0, 1]}, {"name": "C1", "tasks": [2]}]
            wps = [{"name": "WPA", "cap": 1.0, "targets": [0], "facilities": [{"name": "FA", "skills": {"T0": 1.0}, "cost": 1.0}]},
                   {"name": "WPB", "cap": 1.0, "targets": [1], "facilities": [{"name": "FB", "skills": {"T1": 1.0}, "cost": 1.0}], "inputs": [0]},
                   {"name": "WPC", "cap": 1.0, "targets": [2], "facilities": [{"name": "FC", "skills": {"T2": 1.0}, "cost": 1.0}]}]
            fsk = {"FA": 1.0, "FB": 1.0, "FC": 1.0}
            teams = [{"name": "TM0", "targets": [0, 1, 2], "workers": [{"name": "W%d" % i, "skills": {"T0": 1.0, "T1": 1.0, "T2": 1.0}, "fskills": dict(fsk), "cost": 1.0} for i in range(3)]}]
            # T2 must not be started late: it is declared before T0 so that the FF/SF predecessor is the longer one
            out.append({"tasks": tasks, "links": links, "components": comps, "workplaces": wps, "teams": teams, "label": "ff-held-component:%s:%s" % (hold, nf1)})
    return out


def late_placement_specs():
    """a component whose first task needs no workplace (workers only) and whose second, facility task becomes READY (SS) while the first is
    still WORKING; another component occupies the only workplace at first"""
    out = []
    for w0 in (5.0, 3.0):
        tasks = [{"name": "T0", "work": w0}, {"name": "T1", "work": 2.0, "nf": True}, {"name": "T2", "work": 1.0, "auto": True}, {"name": "T3", "work": 2.0, "nf": True}, {"name": "T4", "work": 1.0}]
        links = [[0, 1, "SS"], [1, 2, "FS"], [3, 4, "FS"]]
        comps = [{"name": "HULL", "tasks": [0, 1, 2]}, {"name": "TOOL", "tasks": [3, 4]}]
        wps = [{"name": "WPA", "cap": 1.0, "targets": [1, 2, 3], "facilities": [{"name": "FA", "skills": {"T1": 1.0, "T2": 1.0, "T3": 1.0}, "cost": 1.0}]}]
        sk = {"T1": 1.0, "T3": 1.0, "T4": 1.0}
        teams = [{"name": "TM0", "targets": [0, 1, 3, 4], "workers": [{"name": "W0", "skills": {"T0": 1.0}, "cost": 1.0}] +
                  [{"name": "W%d" % i, "skills": dict(sk), "fskills": {"FA": 1.0}, "cost": 1.0} for i in (1, 2)]}]  # one designer: T0 really takes w0 steps
        out.append({"tasks": tasks, "links": links, "components": comps, "workplaces": wps, "teams": teams, "label": "late-placement:%s" % w0})
    return out


def five_task_join_specs():
    """a tail task with two inputs of different kinds reached in the same layer, plus an independent two-task chain, fewer workers than READY tasks"""
    out = []
    for k1, k2 in (("FF", "SS"), ("SS", "FF"), ("SF", "SS"), ("FF", "SF"), ("FS", "FF")):
        for wv in ((3, 2, 2, 2, 1), (2, 3, 1, 1, 3)):
            tasks = [{"name": tname(i), "work": float(w)} for i, w in enumerate(wv)]
            links = [[0, 2, k1], [1, 2, k2], [3, 4, "FS"]]
            for lay in ("POOL1", "POOL2"):
                sp = with_teams({"tasks": tasks, "links": links}, lay)
                sp["label"] = "five-task-join:%s+%s:%s:%s" % (k1, k2, wv, lay)
                out.append(sp)
    return out


def second_workflow_specs():
    """two independent sub-networks in one project; the task objects of the second one were also put into a BaseWorkflow of their own"""
    out = []
    for k in ("FS", "SS", "FF", "SF"):
        tasks = [{"name": tname(i), "work": float(w)} for i, w in enumerate((2, 1, 2, 1))]
        links = [[0, 1, "FS"], [2, 3, k]]
        sp = with_teams({"tasks": tasks, "links": links}, "POOL2")
        sp["second_workflow"] = [2, 3]
        sp["label"] = "second-workflow:%s" % k
        out.append(sp)
    return out


# ------------------------------------------------------------------------------------------------
# medium-sized models (10-14 tasks / workers / facilities / components, 20-60 steps): behaviour that only starts above a size
# ------------------------------------------------------------------------------------------------
def scale_specs():
    out = []
    # (1) twelve parallel tasks, twelve pooled workers with numeric-string IDs ("1".."12"), unequal works
    n = 12
    tasks = [{"name": "T%d" % i, "id": "T%d" % i, "work": float(1 + (i * 5) % 7)} for i in range(n)]
    full = {t["name"]: 1.0 for t in tasks}
    ws = [{"name": "P%d" % (i + 1), "id": str(i + 1), "skills": dict(full), "cost": float(1 + i % 3)} for i in range(n)]
    out.append({"tasks": tasks, "links": [], "teams": [{"name": "TM0", "targets": list(range(n)), "workers": ws}], "label": "scale:wide12"})
    # (2) the same with half as many workers and one solo worker
    ws2 = [dict(w) for w in ws[:6]]
    ws2[2]["solo"] = True
    out.append({"tasks": tasks, "links": [], "teams": [{"name": "TM0", "targets": list(range(n)), "workers": ws2}], "label": "scale:wide12-6workers"})
    # (3) a chain of ten tasks with a side branch every third task, two workers
    n = 10
    tasks = [{"name": "T%d" % i, "work": float(1 + i % 3)} for i in range(n + 3)]
    links = [[i, i + 1, "FS"] for i in range(n - 1)] + [[0, n, "SS"], [3, n + 1, "FF"], [6, n + 2, "SF"]]
    out.append(with_teams({"tasks": tasks, "links": links, "label": "scale:chain10+branches"}, "POOL2"))
    out[-1]["label"] = "scale:chain10+branches"
    # (4) three layers of four tasks, every task of a layer linked to two tasks of the next with rotating kinds, three teams
    tasks = [{"name": "T%d" % i, "work": float(1 + (i * 3) % 4)} for i in range(12)]
    kinds = ("FS", "SS", "FF", "FS", "SF", "FS")
    links = []
    for layer in range(2):
        for j in range(4):
            a = layer * 4 + j
            for d in (0, 1):
                links.append([a, (layer + 1) * 4 + (j + d) % 4, kinds[(a + d) % len(kinds)]])
    teams = []
    for k in range(3):
        tg = list(range(k * 4, k * 4 + 4))
        teams.append({"name": "TM%d" % k, "targets": tg, "workers": [{"name": "W%d_%d" % (k, i), "skills": {"T%d" % t: 1.0 for t in tg}, "cost": float(1 + i)} for i in range(4)]})
    out.append({"tasks": tasks, "links": links, "teams": teams, "label": "scale:layers3x4"})
    # (5) eight components with one facility task each, a workplace with eight machines and one with two, ten workers
    n = 8
    tasks = [{"name": "T%d" % i, "work": float(2 + i % 3), "nf": True} for i in range(n)] + [{"name": "T%d" % (n + i), "work": 2.0} for i in range(2)]
    comps = [{"name": "C%d" % i, "tasks": [i], "space": 1.0} for i in range(n)]
    sk = {"T%d" % i: 1.0 for i in range(n + 2)}
    wps = [{"name": "WP0", "cap": 8.0, "targets": list(range(n)), "facilities": [{"name": "F%d" % i, "skills": {"T%d" % j: 1.0 for j in range(n)}, "cost": float(1 + i % 2)} for i in range(8)]},
           {"name": "WP1", "cap": 2.0, "targets": list(range(n)), "facilities": [{"name": "G%d" % i, "skills": {"T%d" % j: 2.0 for j in range(n)}, "cost": 3.0} for i in range(2)]}]
    fsk = {f["name"]: 1.0 for wp in wps for f in wp["facilities"]}
    teams = [{"name": "TM0", "targets": list(range(n + 2)), "workers": [{"name": "W%d" % i, "skills": dict(sk), "fskills": dict(fsk), "cost": 1.0} for i in range(10)]}]
    out.append({"tasks": tasks, "links": [[0, n, "FS"], [1, n + 1, "FS"]], "components": comps, "workplaces": wps, "teams": teams, "label": "scale:8components"})
    # (6) a task with seven predecessors of mixed kinds
    tasks = [{"name": "T%d" % i, "work": float(1 + i % 3)} for i in range(8)]
    links = [[i, 7, ("FS", "SS", "FF", "SF")[i % 4]] for i in range(7)]
    out.append(with_teams({"tasks": tasks, "links": links}, "DED"))
    out[-1]["label"] = "scale:seven-predecessors"
    # (7) a join with ten FS predecessors, the slow one in the middle; and a hub with nine successors
    tasks = [{"name": "T%d" % i, "work": 5.0 if i == 3 else 1.0} for i in range(10)] + [{"name": "T10", "work": 2.0}]
    out.append(with_teams({"tasks": tasks, "links": [[i, 10, "FS"] for i in range(10)]}, "DED"))
    out[-1]["label"] = "scale:ten-predecessors"
    tasks = [{"name": "T0", "work": 2.0}, {"name": "T1", "work": 1.0}] + [{"name": "T%d" % (i + 2), "work": float(1 + i % 3)} for i in range(9)]
    sp = with_teams({"tasks": tasks, "links": [[0, 1, "FS"]] + [[1, i + 2, "FS"] for i in range(9)]}, "POOL3")
    sp["label"] = "scale:nine-successors"
    out.append(sp)
    # (8) long personal calendars written out of order and assigned after construction (weekends first, holidays appended)
    cal_w = [4, 5, 11, 12, 18, 19, 25, 26, 8, 15]
    cal_f = [6, 7, 13, 14, 20, 21, 27, 28, 3, 9, 2]
    tasks = [{"name": "T0", "work": 30.0}, {"name": "T1", "work": 12.0, "nf": True}, {"name": "T2", "work": 6.0}]
    wps = [{"name": "WP0", "cap": 1.0, "targets": [1], "facilities": [{"name": "F0", "skills": {"T1": 1.0}, "cost": 2.0, "absence_after": cal_f}]}]
    teams = [{"name": "TM0", "targets": [0, 1, 2], "workers": [{"name": "W0", "skills": {"T0": 1.0}, "cost": 1.0, "absence_after": cal_w},
                                                              {"name": "W1", "skills": {"T0": 0.5, "T2": 1.0}, "cost": 2.0, "absence_after": [1, 0, 2]},
                                                              {"name": "W2", "skills": {"T1": 1.0}, "fskills": {"F0": 1.0}, "cost": 3.0, "absence_after": sorted(cal_w)}]}]
    out.append({"tasks": tasks, "links": [], "components": [{"name": "C0", "tasks": [1]}], "workplaces": wps, "teams": teams, "label": "scale:long-unsorted-calendars"})
    # (9) IDs that are ambiguous when concatenated: workers w1..w11, tasks "1".."12" ("w11"+"2" == "w1"+"12"), teams t1..t11 ("t1"+"11" == "t11"+"1")
    tasks = [{"name": "task%d" % (i + 1), "id": str(i + 1), "work": 9.0 if i == 11 else (1.0 if i == 1 else float(2 + i % 2))} for i in range(12)]  # "2" is the shortest, "12" outlasts the others
    for i, t in enumerate(tasks):  # everybody has a task of his own except w1, who is spare; "2" is reserved for w11; "10".."12" take whoever their team offers
        if i == 0:
            t["fixw"] = ["w2"]
        elif i == 1:
            t["fixw"] = ["w11"]
        elif i < 9:
            t["fixw"] = ["w%d" % (i + 1)]
    allsk = {t["name"]: 1.0 for t in tasks}
    teams = [{"name": "ta", "targets": list(range(0, 9)), "workers": [{"name": "w%d" % i, "skills": dict(allsk), "cost": 1.0} for i in range(1, 10)]},
             {"name": "tb", "targets": [1, 9, 10, 11], "workers": [{"name": "w%d" % i, "skills": dict(allsk), "cost": 2.0} for i in (10, 11)]}]
    out.append({"tasks": tasks, "links": [], "teams": teams, "label": "scale:ambiguous-ids-workers"})
    tasks = [{"name": "task%d" % (i + 1), "id": str(i + 1), "work": 1.0} for i in range(11)]
    allsk = {t["name"]: 1.0 for t in tasks}
    # team t_k serves task (k mod 11) + 1: t1 -> "2", ..., t10 -> "11", t11 -> "1"; everybody is skilled for everything
    teams = [{"name": "t%d" % (i + 1), "targets": [(i + 1) % 11], "workers": [{"name": "p%d" % (i + 1), "skills": dict(allsk), "cost": 1.0}]} for i in range(11)]
    out.append({"tasks": tasks, "links": [[2, 1, "FS"], [1, 0, "FS"]], "teams": teams, "label": "scale:ambiguous-ids-teams"})
    # (11) a long run: seven tasks (40 working steps) done by one worker, five components (one without tasks)
    tasks = [{"name": "T%d" % i, "work": float(w)} for i, w in enumerate((6, 5, 7, 4, 6, 5, 7))]
    comps = [{"name": "C0", "tasks": [0, 1]}, {"name": "C1", "tasks": [2]}, {"name": "C2", "tasks": [3, 4]}, {"name": "C3", "tasks": [5, 6]}, {"name": "C4", "tasks": []}]
    sp = with_teams({"tasks": tasks, "links": [[0, 1, "FS"], [1, 2, "FS"], [2, 3, "SS"], [3, 4, "FS"], [4, 5, "FS"], [5, 6, "FS"]], "components": comps}, "POOL1")
    sp["label"] = "scale:long-run"
    out.append(sp)
    # (10) nine independent tasks of a one-worker team queue up in front of another team's chain
    tasks = [{"name": "A%d" % i, "work": 2.0} for i in range(9)] + [{"name": "B1", "work": 2.0}, {"name": "B2", "work": 2.0}]
    teams = [{"name": "TA", "targets": list(range(9)), "workers": [{"name": "wa", "skills": {"A%d" % i: 1.0 for i in range(9)}, "cost": 1.0}]},
             {"name": "TB", "targets": [9, 10], "workers": [{"name": "wb", "skills": {"B1": 1.0, "B2": 1.0}, "cost": 1.0}]}]
    out.append({"tasks": tasks, "links": [[9, 10, "FS"]], "teams": teams, "label": "scale:queue-of-nine"})
    return out


SCALE_ABSENCE = ([], [3, 4, 9, 15, 16, 17, 22, 23, 30, 31], [0, 1, 2, 3, 4, 5, 6, 7, 8, 9, 10, 11], [2, 5, 8, 11, 14, 17, 20, 23, 26, 29, 32, 35])


def scale_items(rules=("TSLACK",)):
    """(spec, opts) for the medium-sized models: no absence, scattered absence steps, a long block, a regular pattern; plus long individual calendars"""
    out = []
    for sp in scale_specs():
        for ab in SCALE_ABSENCE:
            for rule in rules:
                out.append((sp, {"rule": rule, "absence": list(ab), "max_time": seq_bound(sp) + len(ab) + 10}))
        if sp["label"] == "scale:long-unsorted-calendars":
            continue  # (its calendars are part of the model)
        who = worker_names(sp)[:2] + facility_names(sp)[:1]
        ra = {w: [1, 2, 4, 6, 7, 8, 10, 12] if i == 0 else [0, 3, 5, 9, 11, 13, 14, 15] for i, w in enumerate(who)}
        out.append((sp, {"rule": rules[0], "absence": [5, 6], "res_absence": ra, "max_time": seq_bound(sp) + 30}))
    return out + large_items(rules)


def auto_cure_specs():
    """painted parts are cured by an automatic task: Paint1 feeds the oven Cure (capacity 1) by conveyor; Paint2 is free-standing, its parts have to cure on the Rack"""
    out = []
    for n in (2, 3):
        tasks, comps, links = [], [], []
        for i in range(n):
            tasks += [{"name": "paint", "id": "P%d" % i, "work": float(1 + i % 2), "nf": True}, {"name": "cure", "id": "Q%d" % i, "work": 2.0, "auto": True}]
            comps.append({"name": "c%d" % i, "tasks": [2 * i, 2 * i + 1], "space": 1.0})
            links.append([2 * i, 2 * i + 1, "FS"])
        paints = [2 * i for i in range(n)]
        cures = [2 * i + 1 for i in range(n)]
        wps = [{"name": "Paint1", "cap": 1.0, "targets": paints[:1], "facilities": [{"name": "G1", "skills": {"paint": 1.0}}]},
               {"name": "Paint2", "cap": 2.0, "targets": paints[1:], "facilities": [{"name": "G2", "skills": {"paint": 1.0}}, {"name": "G3", "skills": {"paint": 1.0}}]},
               {"name": "Cure", "cap": 1.0, "targets": cures, "inputs": [0], "facilities": [{"name": "OV", "skills": {"cure": 1.0}}]},
               {"name": "Rack", "cap": 3.0, "targets": cures, "facilities": [{"name": "RK", "skills": {"cure": 0.5}}]}]
        teams = [{"name": "TM0", "targets": paints, "workers": [{"name": "W%d" % i, "skills": {"paint": 1.0}, "fskills": {"G1": 1.0, "G2": 1.0, "G3": 1.0}} for i in range(n)]}]
        for wpr in ("FSS", "SSP"):
            sp = {"tasks": [dict(t, wprule=wpr) for t in tasks], "links": links, "components": comps, "workplaces": wps, "teams": teams, "label": "auto-cure:%d:%s" % (n, wpr)}
            out.append(sp)
    return out


def nested_order_specs():
    """nested products in which part and assembly are apart for a while, with the part listed before or after its assembly in the product:
    (travelling) p1@wp1 -> c1@wp2 -> c2@wp1 -> p2@wp1, the part leaves its still placed assembly and comes back;
    (part-first) cut@shop on the part, then weld -> paint @hall on the assembly (the assembly is not placed while the part is cut)"""
    out = []
    for child_first in (False, True):
        tasks = [{"name": "p1", "work": 2.0, "nf": True}, {"name": "c1", "work": 4.0, "nf": True}, {"name": "c2", "work": 2.0, "nf": True}, {"name": "p2", "work": 2.0, "nf": True}]
        comps = [{"name": "cP", "tasks": [0, 3], "children": [1], "space": 1.0}, {"name": "cC", "tasks": [1, 2], "space": 1.0}]
        if child_first:
            comps = [comps[1], dict(comps[0], children=[0])]
        wps = [{"name": "wp1", "cap": 3.0, "targets": [0, 2, 3], "facilities": [{"name": "f1", "skills": {"p1": 1.0, "c2": 1.0, "p2": 1.0}, "cost": 1.0}]},
               {"name": "wp2", "cap": 3.0, "targets": [1], "facilities": [{"name": "f2", "skills": {"c1": 1.0}, "cost": 2.0}]}]
        teams = [{"name": "TM0", "targets": [0, 1, 2, 3], "workers": [{"name": "W0", "skills": {"p1": 1.0, "c1": 1.0, "c2": 1.0, "p2": 1.0}, "fskills": {"f1": 1.0, "f2": 1.0}, "cost": 1.0}]}]
        out.append({"tasks": tasks, "links": [[0, 1, "FS"], [1, 2, "FS"], [2, 3, "FS"]], "components": comps, "workplaces": wps, "teams": teams,
                    "label": "nested-order:travelling:%s" % ("part-listed-first" if child_first else "assembly-listed-first")})
        tasks = [{"name": "cut", "work": 3.0, "nf": True}, {"name": "weld", "work": 2.0, "nf": True}, {"name": "paint", "work": 2.0, "nf": True}]
        comps = [{"name": "block", "tasks": [1, 2], "children": [1], "space": 1.0}, {"name": "panel", "tasks": [0], "space": 1.0}]
        if child_first:
            comps = [comps[1], dict(comps[0], children=[0])]
        wps = [{"name": "shop", "cap": 2.0, "targets": [0], "facilities": [{"name": "saw", "skills": {"cut": 1.0}, "cost": 1.0}]},
               {"name": "hall", "cap": 2.0, "targets": [1, 2], "facilities": [{"name": "torch", "skills": {"weld": 1.0, "paint": 1.0}, "cost": 2.0}]}]
        teams = [{"name": "TM0", "targets": [0, 1, 2], "workers": [{"name": "W0", "skills": {"cut": 1.0, "weld": 1.0, "paint": 1.0}, "fskills": {"saw": 1.0, "torch": 1.0}, "cost": 5.0}]}]
        out.append({"tasks": tasks, "links": [[0, 1, "FS"], [1, 2, "FS"]], "components": comps, "workplaces": wps, "teams": teams,
                    "label": "nested-order:part-first:%s" % ("part-listed-first" if child_first else "assembly-listed-first")})
    return out


def loaned_worker_spec():
    """a worker appended to team A's roster afterwards whose team_id names team B; A and B are assigned to different tasks"""
    full = {"T0": 1.0, "T1": 1.0, "T2": 1.0}
    return {"tasks": [{"name": "T0", "work": 3.0}, {"name": "T1", "work": 4.0}, {"name": "T2", "work": 3.0}], "links": [[0, 2, "FS"]],
            "teams": [{"name": "TMA", "targets": [0, 2], "workers": [{"name": "W0", "skills": dict(full), "cost": 1.0}, {"name": "WL", "skills": dict(full), "cost": 2.0, "team_id": "TMB"}]},
                      {"name": "TMB", "targets": [1], "workers": [{"name": "W1", "skills": dict(full), "cost": 3.0}]}], "label": "loaned-worker"}


def two_pair_specs():
    """one facility task holding two worker/facility pairs with unequal skills; the machine preferred by the task's rule is listed second in its workplace"""
    out = []
    for frule in ("SSP", "HSV"):
        for order in ((0, 1), (1, 0)):
            facs = [{"name": "robot", "skills": {"weld": 1.0}, "cost": 1.0}, {"name": "crane", "skills": {"weld": 2.0}, "cost": 2.0}]
            facs = [facs[i] for i in order]
            out.append({"tasks": [{"name": "weld", "work": 14.0, "nf": True, "frule": frule}], "links": [], "components": [{"name": "C0", "tasks": [0]}],
                        "workplaces": [{"name": "dock", "cap": 1.0, "targets": [0], "facilities": facs}],
                        "teams": [{"name": "TM0", "targets": [0], "workers": [{"name": "ann", "skills": {"weld": 1.0}, "fskills": {"robot": 1.0, "crane": 1.0}, "cost": 1.0},
                                                                             {"name": "bob", "skills": {"weld": 3.0}, "fskills": {"robot": 1.0, "crane": 1.0}, "cost": 2.0}]}],
                        "label": "two-pairs:%s:%s" % (frule, order)})
    return out


def diamond_ladder_spec(stages=32):
    """a ladder of reconvergent stages: join_k -> (left_k, right_k) -> join_k+1 ...; 3*stages+1 tasks, all finish-to-start, two fully skilled workers
    (the number of paths doubles with every stage: anything that walks paths instead of tasks does not come back)"""
    tasks = [{"name": "J0", "work": 1.0}]
    links = []
    for k in range(stages):
        j = len(tasks) - 1
        tasks += [{"name": "L%d" % k, "work": 1.0}, {"name": "R%d" % k, "work": 1.0}, {"name": "J%d" % (k + 1), "work": 1.0}]
        n = len(tasks)
        links += [[j, n - 3, "FS"], [j, n - 2, "FS"], [n - 3, n - 1, "FS"], [n - 2, n - 1, "FS"]]
    full = {t["name"]: 1.0 for t in tasks}
    return {"tasks": tasks, "links": links, "teams": [{"name": "TM0", "targets": list(range(len(tasks))), "workers": [{"name": "W0", "skills": dict(full), "cost": 1.0}, {"name": "W1", "skills": dict(full), "cost": 1.0}]}],
            "label": "diamond-ladder:%d" % stages}


def id_namespace_specs():
    """models whose IDs / names are unique per kind only: (a) teams and workplaces both numbered "1", "2"; (b) two tasks sharing a name, assigned to different teams,
    next to a third task the second team's worker could do as well"""
    out = []
    for wp_id in ("1", "2", "WS"):
        for w_insp in (5.0, 1.0):
            out.append({"tasks": [{"name": "assemble", "work": 2.0, "nf": True}, {"name": "inspect", "work": w_insp}], "links": [], "components": [{"name": "c", "tasks": [0]}],
                        "workplaces": [{"name": "WS", "id": wp_id, "cap": 1.0, "targets": [0], "facilities": [{"name": "machine", "skills": {"assemble": 1.0}, "cost": 1.0}]}],
                        "teams": [{"name": "1", "targets": [1], "workers": [{"name": "v", "skills": {"inspect": 1.0}, "cost": 1.0}]},
                                  {"name": "2", "targets": [0, 1], "workers": [{"name": "w", "skills": {"assemble": 1.0, "inspect": 1.0}, "fskills": {"machine": 1.0}, "cost": 1.0}]}],
                        "label": "id-namespace:workplace-id=%s:%s" % (wp_id, w_insp)})
    for works in ((1.0, 2.0, 3.0), (3.0, 2.0, 1.0), (2.0, 2.0, 2.0), (2.0, 1.0, 3.0), (1.0, 3.0, 2.0), (3.0, 1.0, 2.0)):
        out.append({"tasks": [{"name": "weld", "id": "T0", "work": works[0]}, {"name": "weld", "id": "T1", "work": works[1]}, {"name": "paint", "id": "T2", "work": works[2]}], "links": [],
                    "teams": [{"name": "TM0", "targets": [0], "workers": [{"name": "W0", "skills": {"weld": 1.0}, "cost": 1.0}]},
                              {"name": "TM1", "targets": [1, 2], "workers": [{"name": "W1", "skills": {"weld": 1.0, "paint": 1.0}, "cost": 2.0}]}],
                    "label": "id-namespace:same-task-name:%s" % (works,)})
    return out


def nested_running_specs():
    """nested products in which something is still running on a part when its assembly is carried somewhere else or out"""
    out = []
    # (N1) body > engine in one shop: "fit" (automatic, on the body) ends while "test" (automatic, on the engine) is still running; paint follows the test
    for fit_w, test_w in ((2.0, 8.0), (3.0, 5.0), (1.0, 3.0)):
        out.append({"tasks": [{"name": "fit", "work": fit_w, "auto": True}, {"name": "test", "work": test_w, "auto": True}, {"name": "paint", "work": 2.0}], "links": [[1, 2, "FS"]],
                    "components": [{"name": "body", "tasks": [0], "children": [1], "space": 1.0}, {"name": "engine", "tasks": [1], "space": 1.0}],
                    "workplaces": [{"name": "shop", "cap": 4.0, "targets": [0, 1], "facilities": [{"name": "bench", "skills": {"fit": 1.0, "test": 1.0}, "cost": 1.0}]}],
                    "teams": [{"name": "TM0", "targets": [2], "workers": [{"name": "painter", "skills": {"paint": 1.0}, "cost": 1.0}]}], "label": "nested-running:auto-part:%s:%s" % (fit_w, test_w)})
    # (N2) P with two parts worked side by side in W1, then P is assembled in W3; a block D needs all of W1 afterwards
    for order in ((0, 1, 2, 3), (0, 3, 1, 2)):
        comps = [{"name": "P", "tasks": [2], "children": [1, 2], "space": 1.0}, {"name": "Ca", "tasks": [0], "space": 1.0}, {"name": "Cb", "tasks": [1], "space": 1.0}, {"name": "D", "tasks": [3], "space": 2.0}]
        full = {"TA": 1.0, "TB": 1.0, "TP": 1.0, "TD": 1.0}
        out.append({"tasks": [{"name": "TA", "work": 3.0, "nf": True}, {"name": "TB", "work": 3.0, "nf": True}, {"name": "TP", "work": 2.0, "nf": True}, {"name": "TD", "work": 4.0, "nf": True}],
                    "links": [[0, 2, "FS"], [1, 2, "FS"], [2, 3, "FS"]], "components": comps,
                    "workplaces": [{"name": "W1", "cap": 2.0, "targets": [0, 1, 3], "facilities": [{"name": "F1a", "skills": {"TA": 1.0, "TB": 1.0, "TD": 1.0}, "cost": 1.0}, {"name": "F1b", "skills": {"TA": 1.0, "TB": 1.0, "TD": 1.0}, "cost": 1.0}]},
                                   {"name": "W3", "cap": 3.0, "targets": [2], "facilities": [{"name": "F3", "skills": {"TP": 1.0}, "cost": 1.0}]}],
                    "teams": [{"name": "TM0", "targets": [0, 1, 2, 3], "workers": [{"name": "w%d" % i, "skills": dict(full), "fskills": {"F1a": 1.0, "F1b": 1.0, "F3": 1.0}, "cost": 1.0} for i in range(3)]}],
                    "label": "nested-running:two-parts-then-block:%s" % (order,)})
    # (N3) the assembly's task may start as soon as the part's task has started (SS): the part is being worked in W1 when the assembly is wanted in W3
    for kind in ("SS", "FS"):
        out.append({"tasks": [{"name": "TC", "work": 4.0, "nf": True}, {"name": "TP", "work": 2.0, "nf": True}], "links": [[0, 1, kind]],
                    "components": [{"name": "P", "tasks": [1], "children": [1], "space": 1.0}, {"name": "C", "tasks": [0], "space": 1.0}],
                    "workplaces": [{"name": "W1", "cap": 1.0, "targets": [0], "facilities": [{"name": "F1", "skills": {"TC": 1.0}, "cost": 1.0}]},
                                   {"name": "W3", "cap": 3.0, "targets": [1], "facilities": [{"name": "F3", "skills": {"TP": 1.0}, "cost": 1.0}]}],
                    "teams": [{"name": "TM0", "targets": [0, 1], "workers": [{"name": "w%d" % i, "skills": {"TC": 1.0, "TP": 1.0}, "fskills": {"F1": 1.0, "F3": 1.0}, "cost": 1.0} for i in range(2)]}],
                    "label": "nested-running:assembly-wanted-while-part-is-worked:%s" % kind})
    # (N4) hull > block in one shop: the hull's survey ends (the hull leaves with its block) while the block is still being welded on the shop's machine
    for sv, wd in ((2.0, 5.0), (1.0, 3.0)):
        out.append({"tasks": [{"name": "survey", "work": sv}, {"name": "weld", "work": wd, "nf": True}], "links": [],
                    "components": [{"name": "hull", "tasks": [0], "children": [1], "space": 1.0}, {"name": "block", "tasks": [1], "space": 1.0}],
                    "workplaces": [{"name": "shop", "cap": 5.0, "targets": [0, 1], "facilities": [{"name": "machine", "skills": {"weld": 1.0, "survey": 1.0}, "cost": 2.0}]}],
                    "teams": [{"name": "TM0", "targets": [0, 1], "workers": [{"name": "surveyor", "skills": {"survey": 1.0}, "cost": 1.0}, {"name": "welder", "skills": {"weld": 1.0}, "fskills": {"machine": 1.0}, "cost": 1.0}]}],
                    "label": "nested-running:hull-leaves-while-block-is-welded:%s:%s" % (sv, wd)})
    return out


def oven_spec(cure_work=3.0):
    """a panel whose only task is an automatic cure in an oven, next to a frame that is welded and painted by hand"""
    return {"tasks": [{"name": "cure", "work": cure_work, "auto": True}, {"name": "weld", "work": 3.0}, {"name": "paint", "work": 3.0}], "links": [[1, 2, "FS"]],
            "components": [{"name": "panel", "tasks": [0]}, {"name": "frame", "tasks": [1, 2]}],
            "workplaces": [{"name": "oven", "cap": 1.0, "targets": [0], "facilities": [{"name": "heater", "skills": {"cure": 1.0}, "cost": 1.0}]}],
            "teams": [{"name": "TM0", "targets": [1, 2], "workers": [{"name": "W0", "skills": {"weld": 1.0, "paint": 1.0}, "cost": 1.0}]}], "label": "oven:%s" % cure_work}


def large_specs():
    """a second, larger catalogue (20-40 tasks or resources, runs of 40-130 steps): thresholds, caches, sorts and loops that only go wrong beyond a handful of elements"""
    out = []
    # (L1) a chain of thirty tasks, three pooled workers
    tasks = [{"name": "T%d" % i, "work": float(1 + (i * 2) % 3)} for i in range(30)]
    sp = with_teams({"tasks": tasks, "links": [[i, i + 1, "FS"] for i in range(29)]}, "POOL3")
    sp["label"] = "large:chain30"
    out.append(sp)
    # (L2) hub -> 24 parallel tasks -> join; one team of twelve (two of them solo, unequal skills and rates)
    n = 24
    tasks = [{"name": "H", "work": 1.0}] + [{"name": "P%d" % i, "work": float(1 + (i * 5) % 4)} for i in range(n)] + [{"name": "J", "work": 2.0}]
    links = [[0, i + 1, "FS"] for i in range(n)] + [[i + 1, n + 1, "FS"] for i in range(n)]
    names = [t["name"] for t in tasks]
    ws = [{"name": "W%02d" % i, "skills": {nm: (1.0 if (i + k) % 5 else 2.0) for k, nm in enumerate(names)}, "cost": float(1 + i % 4), "solo": i in (3, 7)} for i in range(12)]
    out.append({"tasks": tasks, "links": links, "teams": [{"name": "TM0", "targets": list(range(len(tasks))), "workers": ws}], "label": "large:fan24-team12"})
    # (L3) twelve components with one machine task each; a hall with room and machines for twelve, a bay for three; fourteen operators
    n = 12
    tasks = [{"name": "M%d" % i, "work": float(2 + i % 4), "nf": True} for i in range(n)]
    comps = [{"name": "K%d" % i, "tasks": [i], "space": 1.0} for i in range(n)]
    wps = [{"name": "HALL", "cap": 12.0, "targets": list(range(n)), "facilities": [{"name": "HF%d" % i, "skills": {"M%d" % j: 1.0 for j in range(n)}, "cost": float(1 + i % 3)} for i in range(12)]},
           {"name": "BAY", "cap": 3.0, "targets": list(range(n)), "facilities": [{"name": "BF%d" % i, "skills": {"M%d" % j: 2.0 for j in range(n)}, "cost": 4.0} for i in range(3)]}]
    fsk = {f["name"]: 1.0 for wp in wps for f in wp["facilities"]}
    teams = [{"name": "TM0", "targets": list(range(n)), "workers": [{"name": "O%02d" % i, "skills": {"M%d" % j: 1.0 for j in range(n)}, "fskills": dict(fsk), "cost": 1.0} for i in range(14)]}]
    out.append({"tasks": tasks, "links": [], "components": comps, "workplaces": wps, "teams": teams, "label": "large:hall-of-twelve"})
    # (L4) five layers of five tasks, every task linked to two tasks of the next layer with rotating kinds; three teams of three
    tasks = [{"name": "G%d" % i, "work": float(1 + (i * 3) % 4)} for i in range(25)]
    kinds = ("FS", "SS", "FS", "FF", "FS", "SF", "FS")
    links = []
    for layer in range(4):
        for j in range(5):
            a = layer * 5 + j
            for d in (0, 2):
                links.append([a, (layer + 1) * 5 + (j + d) % 5, kinds[(a + d) % len(kinds)]])
    teams = []
    for k in range(3):
        tg = [i for i in range(25) if i % 3 == k]
        teams.append({"name": "TM%d" % k, "targets": tg, "workers": [{"name": "V%d_%d" % (k, i), "skills": {"G%d" % t: 1.0 for t in tg}, "cost": float(1 + i)} for i in range(3)]})
    out.append({"tasks": tasks, "links": links, "teams": teams, "label": "large:grid5x5"})
    # (L5) a very long run: four tasks of 30 work units in a chain, one worker with a long weekly calendar, a second one helping on the last task
    tasks = [{"name": "R%d" % i, "work": 30.0} for i in range(4)]
    week = [d for w in range(20) for d in (7 * w + 5, 7 * w + 6)]
    teams = [{"name": "TM0", "targets": [0, 1, 2, 3], "workers": [{"name": "W0", "skills": {"R0": 1.0, "R1": 1.0, "R2": 1.0, "R3": 1.0}, "cost": 1.0, "absence": week},
                                                                 {"name": "W1", "skills": {"R3": 0.5}, "cost": 2.0}]}]
    out.append({"tasks": tasks, "links": [[0, 1, "FS"], [1, 2, "FS"], [2, 3, "FS"]], "teams": teams, "label": "large:long-run-130"})
    # (L6) twenty independent tasks queueing for four workers of two teams, ten tasks each
    tasks = [{"name": "Q%02d" % i, "work": float(1 + (i * 7) % 5)} for i in range(20)]
    teams = [{"name": "TA", "targets": list(range(0, 10)), "workers": [{"name": "a%d" % i, "skills": {"Q%02d" % j: 1.0 for j in range(10)}, "cost": 1.0} for i in range(2)]},
             {"name": "TB", "targets": list(range(10, 20)), "workers": [{"name": "b%d" % i, "skills": {"Q%02d" % j: 1.0 for j in range(10, 20)}, "cost": 2.0} for i in range(2)]}]
    out.append({"tasks": tasks, "links": [], "teams": teams, "label": "large:queue-of-twenty"})
    # (L7) a crew of twelve where everybody excavates and only the foreman also surveys; the survey and six excavations are open at once
    tasks = [{"name": "survey", "work": 3.0}] + [{"name": "dig%d" % i, "work": float(4 + i % 3)} for i in range(6)] + [{"name": "fill", "work": 2.0}]
    links = [[0, 7, "FS"]]
    digs = {"dig%d" % i: 1.0 for i in range(6)}
    ws = [{"name": "foreman", "skills": dict(digs, survey=1.0, fill=1.0), "cost": 3.0}] + [{"name": "hand%02d" % i, "skills": dict(digs), "cost": 1.0} for i in range(11)]
    out.append({"tasks": tasks, "links": links, "teams": [{"name": "TM0", "targets": list(range(len(tasks))), "workers": ws}], "label": "large:crew12-one-specialist"})
    # (L8) three robots, twelve welders of whom four apprentices (the least skilled, so first under the default worker rule) have no robot licence
    tasks = [{"name": "weld", "id": "weld%d" % i, "work": float(6 + i), "nf": True} for i in range(3)]
    comps = [{"name": "part%d" % i, "tasks": [i], "space": 1.0} for i in range(3)]
    wps = [{"name": "cell", "cap": 3.0, "targets": [0, 1, 2], "facilities": [{"name": "robot", "id": "robot%d" % i, "skills": {"weld": 1.0}, "cost": 2.0} for i in range(3)]}]
    ws = [{"name": "apprentice%d" % i, "skills": {"weld": 0.5}, "cost": 1.0} for i in range(4)] + [{"name": "welder%d" % i, "skills": {"weld": 1.0 + 0.1 * i}, "fskills": {"robot": 1.0}, "cost": 2.0} for i in range(8)]
    out.append({"tasks": tasks, "links": [], "components": comps, "workplaces": wps, "teams": [{"name": "TM0", "targets": [0, 1, 2], "workers": ws}], "label": "large:welders12-apprentices-first"})
    # (L9) twelve machine tasks in a chain (about 55 steps), two machines of different rates taking turns, two operators of different rates
    tasks = [{"name": "S%02d" % i, "work": float(3 + (i * 2) % 4), "nf": True} for i in range(12)]
    comps = [{"name": "U%02d" % i, "tasks": [i], "space": 1.0} for i in range(12)]
    wps = [{"name": "line", "cap": 2.0, "targets": list(range(12)), "facilities": [{"name": "MA", "skills": {"S%02d" % i: 1.0 for i in range(0, 12, 2)}, "cost": 1.0},
                                                                                  {"name": "MB", "skills": {"S%02d" % i: 1.0 for i in range(1, 12, 2)}, "cost": 3.0}]}]
    ws = [{"name": "opA", "skills": {"S%02d" % i: 1.0 for i in range(0, 12, 3)}, "fskills": {"MA": 1.0, "MB": 1.0}, "cost": 2.0},
          {"name": "opB", "skills": {"S%02d" % i: 1.0 for i in range(12) if i % 3}, "fskills": {"MA": 1.0, "MB": 1.0}, "cost": 5.0}]
    out.append({"tasks": tasks, "links": [[i, i + 1, "FS"] for i in range(11)], "components": comps, "workplaces": wps, "teams": [{"name": "TM0", "targets": list(range(12)), "workers": ws}],
                "label": "large:machine-chain12"})
    # (L10) a yard with a fabrication and an outfitting team; painting_prep is served by both; all work amounts differ
    names = ["block_assembly", "cutting", "hull_welding", "pipe_fitting", "painting_prep", "cable_laying", "inspection", "final_check"]
    work = [40.0, 30.0, 24.0, 12.0, 6.0, 5.0, 4.0, 3.0]
    tasks = [{"name": nm, "work": w} for nm, w in zip(names, work)]
    ix = {nm: i for i, nm in enumerate(names)}
    links = [[ix[a], ix[b], "FS"] for a, b in (("cutting", "pipe_fitting"), ("cutting", "painting_prep"), ("pipe_fitting", "inspection"), ("painting_prep", "cable_laying"),
                                              ("inspection", "final_check"), ("hull_welding", "final_check"), ("block_assembly", "final_check"), ("cable_laying", "final_check"))]
    wk = lambda nm, sk: {"name": nm, "skills": {k: 1.0 for k in sk}, "cost": 1.0}  # noqa: E731
    fab = [wk("welder_1", ["hull_welding"]), wk("welder_2", ["cutting", "hull_welding"]), wk("fitter_1", ["cutting", "pipe_fitting", "painting_prep"]), wk("assembler_1", ["block_assembly"]), wk("assembler_2", ["block_assembly"])]
    outf = [wk("inspector_1", ["inspection", "final_check"]), wk("painter_1", ["painting_prep"]), wk("electrician_1", ["cable_laying"])]
    out.append({"tasks": tasks, "links": links, "teams": [{"name": "team_fab", "targets": [ix[n_] for n_ in ("block_assembly", "cutting", "hull_welding", "pipe_fitting", "painting_prep")], "workers": fab},
                                                          {"name": "team_out", "targets": [ix[n_] for n_ in ("painting_prep", "cable_laying", "inspection", "final_check")], "workers": outf}],
                "label": "large:yard-two-teams"})
    # (L11) a deck with eight equal seams welded by eight welders at once (all eight finish in one step), then inspected; a hatch cover next to it
    tasks = [{"name": "seam%d" % i, "work": 3.0} for i in range(8)] + [{"name": "inspect", "work": 2.0}, {"name": "hatch", "work": 4.0}]
    seams = {"seam%d" % i: 1.0 for i in range(8)}
    ws = [{"name": "welder%d" % i, "skills": {"seam%d" % i: 1.0}, "cost": 1.0} for i in range(8)] + [{"name": "surveyor", "skills": {"inspect": 1.0, "hatch": 1.0}, "cost": 2.0}]  # (one welder per seam)
    out.append({"tasks": tasks, "links": [[i, 8, "FS"] for i in range(8)], "components": [{"name": "deck", "tasks": list(range(8))}, {"name": "cover", "tasks": [8, 9]}],
                "teams": [{"name": "TM0", "targets": list(range(10)), "workers": ws}], "label": "large:deck-eight-seams"})
    return out


LARGE_ABSENCE = ([], [5, 6, 12, 13, 19, 20, 26, 27, 33, 34, 40, 41, 47, 48, 54, 55, 61, 62], [1, 2, 3, 30, 31, 32, 33, 34, 35, 36, 37, 38, 39, 60])


def large_items(rules=("TSLACK",)):
    out = []
    for sp in large_specs():
        for ab in LARGE_ABSENCE:
            for rule in rules:
                out.append((sp, {"rule": rule, "absence": list(ab), "max_time": seq_bound(sp) + len(ab) + 20}))
    return out


def ff_chain_specs():
    """a long finish-to-finish (or start-to-finish headed) chain whose members all run out of work in the same step while the head is still busy:
    X -k0-> B1 -FF-> B2 ... -FF-> Bn, every task with a worker of its own; declared and listed forwards and backwards"""
    out = []
    for n in (5, 6, 12):
        for k0 in ("FF", "SF"):
            tasks = [{"name": tname(0), "work": 3.0}] + [{"name": tname(i), "work": 1.0} for i in range(1, n + 1)]  # (T0 is the head X, T1..Tn the chain B1..Bn)
            links = [[i, i + 1, k0 if i == 0 else "FF"] for i in range(n)]
            for rev in (False, True):
                sp = with_teams({"tasks": tasks, "links": links if not rev else links[::-1]}, "DED")
                if rev:
                    sp["order"] = list(range(n + 1))[::-1]
                    sp["hash"] = list(range(n + 1))[::-1]
                sp["label"] = "ff-chain:%d:%s:%s" % (n, k0, "reversed" if rev else "forward")
                out.append(sp)
    return out


def sectioned_workplace_specs():
    """a machining bay that is a section (child workplace) of a hall: pipe: cut@bay -> inspect@hall; a frame fills the hall for a while; the bay's machine
    could do the inspection as well but the inspection is given to the hall only"""
    out = []
    for asm in (6.0, 3.0):
        for parent in (1, None):
            wps = [{"name": "hall", "cap": 1.0, "targets": [2, 1], "facilities": [{"name": "rig", "skills": {"assemble": 1.0, "inspect": 1.0}, "cost": 1.0}]},
                   {"name": "bay", "cap": 1.0, "targets": [0], "facilities": [{"name": "cnc", "skills": {"cut": 1.0, "inspect": 1.0}, "cost": 1.0}]}]
            if parent is not None:
                wps[1]["parent"] = 0
            out.append({"tasks": [{"name": "cut", "work": 2.0, "nf": True}, {"name": "inspect", "work": 2.0, "nf": True}, {"name": "assemble", "work": asm, "nf": True}], "links": [[0, 1, "FS"]],
                        "components": [{"name": "pipe", "tasks": [0, 1], "space": 1.0}, {"name": "frame", "tasks": [2], "space": 1.0}], "workplaces": wps,
                        "teams": [{"name": "crew", "targets": [0, 1, 2], "workers": [{"name": "fitter", "skills": {"assemble": 1.0}, "fskills": {"rig": 1.0}, "cost": 1.0},
                                                                                  {"name": "machinist", "skills": {"cut": 1.0, "inspect": 1.0}, "fskills": {"cnc": 1.0, "rig": 1.0}, "cost": 1.0}]}],
                        "label": "sectioned-workplace:%s:%s" % (asm, "bay-in-hall" if parent is not None else "separate")})
    return out


def waves_specs():
    """a shop with room, machines and operators for k blocks and 2k blocks of equal work: the blocks go through in waves, a whole wave finishing in one step"""
    out = []
    for k, solo in ((3, True), (3, False), (4, True)):
        n = 2 * k
        tasks = [{"name": "paint", "id": "paint%d" % i, "work": 2.0, "nf": True} for i in range(n)]
        comps = [{"name": "block%d" % i, "tasks": [i], "space": 1.0} for i in range(n)]
        wps = [{"name": "shop", "cap": float(k), "targets": list(range(n)), "facilities": [{"name": "booth", "id": "booth%d" % i, "skills": {"paint": 1.0}, "solo": solo, "cost": 1.0} for i in range(k)]}]
        ws = [{"name": "painter%d" % i, "skills": {"paint": 1.0}, "fskills": {"booth": 1.0}, "solo": solo, "cost": 1.0} for i in range(k)]
        out.append({"tasks": tasks, "links": [], "components": comps, "workplaces": wps, "teams": [{"name": "TM0", "targets": list(range(n)), "workers": ws}], "label": "waves:%d:%s" % (k, "solo" if solo else "shared")})
    return out


def decimal_floor_spec():
    """twelve blocks with floor sizes 0.1..0.4 (no binary fractions) going through two equal bays of area 1.0 with four machines each, four operators"""
    floor = [0.1, 0.2, 0.3, 0.3, 0.3, 0.1, 0.4, 0.3, 0.4, 0.4, 0.4, 0.1]
    work = [3, 2, 3, 3, 3, 3, 5, 2, 2, 5, 3, 2]
    n = len(floor)
    tasks = [{"name": "job", "id": "job%d" % i, "work": float(work[i]), "nf": True} for i in range(n)]
    comps = [{"name": "block%d" % i, "tasks": [i], "space": floor[i]} for i in range(n)]
    wps = [{"name": "bay%d" % k, "cap": 1.0, "targets": list(range(n)), "facilities": [{"name": "machine", "id": "bay%d_m%d" % (k, j), "skills": {"job": 1.0}} for j in range(4)]} for k in range(2)]
    ws = [{"name": "w%d" % i, "skills": {"job": 1.0}, "fskills": {"machine": 1.0}} for i in range(4)]
    return {"tasks": tasks, "links": [], "components": comps, "workplaces": wps, "teams": [{"name": "team", "targets": list(range(n)), "workers": ws}], "label": "decimal-floor-sizes"}


def tied_lines_spec():
    """three cut -> weld lines of equal total length (4+2, 2+4, 3+3) and two solo workers: tasks of different work amount tie under the slack-based rules"""
    tasks, links = [], []
    for i, (a, b) in enumerate(((4.0, 2.0), (2.0, 4.0), (3.0, 3.0))):
        tasks += [{"name": "cut", "id": "line%d_cut" % i, "work": a}, {"name": "weld", "id": "line%d_weld" % i, "work": b}]
        links.append([2 * i, 2 * i + 1, "FS"])
    ws = [{"name": "w%d" % i, "skills": {"cut": 1.0, "weld": 1.0}, "solo": True, "cost": 10.0 * (i + 1)} for i in range(2)]
    return {"tasks": tasks, "links": links, "teams": [{"name": "team", "targets": list(range(6)), "workers": ws}], "label": "tied-lines"}


def dock_spec():
    """a hull (with parts panel and frame) stays in one dock over weld -> grind (on the panel) -> paint, while a pump arrives at the same dock after a preparation step"""
    hull_jobs = {"weld": 1.0, "grind": 1.0, "paint": 1.0}
    return {"tasks": [{"name": "weld", "work": 2.0, "nf": True}, {"name": "grind", "work": 2.0, "nf": True}, {"name": "paint", "work": 2.0, "nf": True}, {"name": "prep", "work": 1.0}, {"name": "mount", "work": 12.0, "nf": True}],
            "links": [[0, 1, "FS"], [1, 2, "FS"], [3, 4, "FS"]],
            "components": [{"name": "hull", "tasks": [0, 2], "children": [1, 2], "space": 3.0}, {"name": "panel", "tasks": [1], "space": 1.0}, {"name": "frame", "tasks": [], "space": 1.0}, {"name": "pump", "tasks": [4], "space": 1.0}],
            "workplaces": [{"name": "W", "cap": 20.0, "targets": [0, 1, 2, 4], "facilities": [{"name": "m_hull", "skills": dict(hull_jobs)}, {"name": "m_pump", "skills": {"mount": 1.0}}]}],
            "teams": [{"name": "team", "targets": [0, 1, 2, 3, 4], "workers": [{"name": "w_hull", "skills": dict(hull_jobs), "fskills": {"m_hull": 1.0}}, {"name": "w_pump", "skills": {"prep": 1.0, "mount": 1.0}, "fskills": {"m_pump": 1.0}}]}],
            "label": "dock:hull-with-part-task-and-a-pump"}


def long_idle_spec(idle=130):
    """two crews; the second crew is individually absent for the first `idle` steps, so the project idles for more than a hundred steps after the first crew is done"""
    cal = list(range(idle))
    return {"tasks": [{"name": "T0", "work": 3.0}, {"name": "T1", "work": 2.0}, {"name": "T2", "work": 3.0}], "links": [[0, 1, "FS"], [1, 2, "FS"]],
            "teams": [{"name": "TM0", "targets": [0], "workers": [{"name": "W0", "skills": {"T0": 1.0}, "cost": 1.0}]},
                      {"name": "TM1", "targets": [1, 2], "workers": [{"name": "W1", "skills": {"T1": 1.0, "T2": 1.0}, "cost": 2.0, "absence": cal}]}], "label": "long-idle:%d" % idle}


def big_checkpoint_spec():
    """ten lines of four chained tasks (40 tasks, 16 work units each) worked by three pooled workers with weekly days off: a run of about 250 steps whose
    checkpoint after 190 steps is a file of more than a mebibyte"""
    tasks, links = [], []
    for b in range(10):
        for j in range(4):
            tasks.append({"name": "B%d_%d" % (b, j), "work": 16.0})
            if j:
                links.append([4 * b + j - 1, 4 * b + j, "FS"])
    full = {t["name"]: 1.0 for t in tasks}
    ws = [{"name": "W%d" % i, "skills": dict(full), "cost": float(1 + i), "absence": [7 * w + 5 + (i % 2) for w in range(40)]} for i in range(3)]
    return {"tasks": tasks, "links": links, "teams": [{"name": "TM0", "targets": list(range(40)), "workers": ws}], "label": "big-checkpoint"}


def usage_specs():
    """the same kinds of model reached through other legitimate ways of building the object graph (round 13):
    copy.copy twins whose run-time containers are still the template's, user subclasses with value equality or with len()/truth value,
    a project created first and filled afterwards, calendars handed over empty and filled later, a workplace of capacity zero"""
    out = []
    # (U1) three welders - two of them copy.copy twins of the first - on a hull task, next to a second task; two machine twins on a facility task
    welders = [{"name": "welder0", "skills": {"hull": 1.0, "deck": 1.0}, "cost": 5.0}, {"name": "welder1", "skills": {"hull": 1.0, "deck": 1.0}, "cost": 2.0, "copy_of": "welder0"},
               {"name": "welder2", "skills": {"hull": 1.0}, "cost": 0.0, "copy_of": "welder0", "absence": [2]}]
    out.append({"tasks": [{"name": "hull", "work": 9.0}, {"name": "deck", "work": 4.0}], "links": [], "teams": [{"name": "TM0", "targets": [0, 1], "workers": welders}], "label": "usage:worker-twins-by-copy"})
    ops = [{"name": "op%d" % i, "skills": {"mill": 1.0, "drill": 1.0}, "fskills": {"M0": 1.0, "M1": 1.0}, "cost": 1.0} for i in range(2)]
    if True:
        ops[1]["copy_of"] = "op0"
    out.append({"tasks": [{"name": "mill", "work": 4.0, "nf": True}, {"name": "drill", "work": 3.0, "nf": True}], "links": [],
                "components": [{"name": "K0", "tasks": [0]}, {"name": "K1", "tasks": [1]}],
                "workplaces": [{"name": "shop", "cap": 2.0, "targets": [0, 1], "facilities": [{"name": "M0", "skills": {"mill": 1.0, "drill": 1.0}, "cost": 3.0}, {"name": "M1", "skills": {"mill": 1.0, "drill": 1.0}, "cost": 4.0, "copy_of": "M0"}]}],
                "teams": [{"name": "TM0", "targets": [0, 1], "workers": ops}], "label": "usage:machine-and-operator-twins-by-copy"})
    # (U2) two docks, the second a copy.copy twin of the first, one hull each
    out.append({"tasks": [{"name": "hullA", "work": 3.0, "nf": True}, {"name": "hullB", "work": 4.0, "nf": True}], "links": [],
                "components": [{"name": "A", "tasks": [0], "space": 1.0}, {"name": "B", "tasks": [1], "space": 1.0}],
                "workplaces": [{"name": "dock1", "cap": 1.0, "targets": [0], "facilities": [{"name": "crane1", "skills": {"hullA": 1.0}, "cost": 1.0}]},
                               {"name": "dock2", "cap": 1.0, "targets": [1], "facilities": [{"name": "crane2", "skills": {"hullB": 1.0}, "cost": 1.0}], "copy_of": "dock1"}],
                "teams": [{"name": "TM0", "targets": [0, 1], "workers": [{"name": "r%d" % i, "skills": {"hullA": 1.0, "hullB": 1.0}, "fskills": {"crane1": 1.0, "crane2": 1.0}, "cost": 1.0} for i in range(2)]}],
                "label": "usage:workplace-twin-by-copy"})
    # (U2b) a task cloned with copy.copy from a template task and given to another team
    for works in ((3.0, 2.0), (2.0, 3.0)):
        out.append({"tasks": [{"name": "A", "work": works[0]}, {"name": "B", "work": works[1], "copy_of": "A"}], "links": [],
                    "teams": [{"name": "TA", "targets": [0], "workers": [{"name": "wA", "skills": {"A": 1.0}, "cost": 1.0}]},
                              {"name": "TB", "targets": [1], "workers": [{"name": "wB", "skills": {"B": 1.0}, "cost": 1.0}]}], "label": "usage:task-twin-by-copy:%s" % (works,)})
    # (U3) value-equal twins: two fitters of the same name and skills in different teams (and two equal machines)
    for works in ((4.0, 1.0), (1.0, 4.0), (2.0, 2.0)):
        out.append({"tasks": [{"name": "long", "id": "T0", "work": works[0]}, {"name": "short", "id": "T1", "work": works[1]}], "links": [],
                    "teams": [{"name": "TM0", "targets": [1], "workers": [{"name": "fitter", "id": "Wa", "skills": {"long": 1.0, "short": 1.0}, "cost": 1.0}]},
                              {"name": "TM1", "targets": [0], "workers": [{"name": "fitter", "id": "Wb", "skills": {"long": 1.0, "short": 1.0}, "cost": 2.0}]}],
                    "value_eq": True, "label": "usage:value-equal-workers:%s" % (works,)})
    out.append({"tasks": [{"name": "cut", "id": "T0", "work": 3.0, "nf": True}, {"name": "cut", "id": "T1", "work": 2.0, "nf": True}], "links": [],
                "components": [{"name": "K0", "tasks": [0]}, {"name": "K1", "tasks": [1]}],
                "workplaces": [{"name": "shop", "cap": 2.0, "targets": [0, 1], "facilities": [{"name": "saw", "id": "S0", "skills": {"cut": 1.0}, "cost": 1.0}, {"name": "saw", "id": "S1", "skills": {"cut": 1.0}, "cost": 2.0}]}],
                "teams": [{"name": "TM0", "targets": [0, 1], "workers": [{"name": "sawyer", "id": "Wa", "skills": {"cut": 1.0}, "fskills": {"saw": 1.0}, "cost": 1.0}, {"name": "sawyer", "id": "Wb", "skills": {"cut": 1.0}, "fskills": {"saw": 1.0}, "cost": 1.0}]}],
                "value_eq": True, "label": "usage:value-equal-machines-and-operators"})
    # (U4) project created first and empty (container subclasses with len()), everything appended afterwards
    for fl in list(flows(3, ("FS", "SS"), (1, 2)))[::5]:
        out.append(dict(with_teams(fl, "POOL2"), build_style="bottom-up", label="usage:bottom-up:flow"))
    for sp in list(fac_specs("quick"))[::17]:
        out.append(dict(sp, build_style="bottom-up", label="usage:bottom-up:" + sp["label"]))
    # (U5) calendars handed to the constructors while still empty and filled afterwards through the caller's reference
    out.append({"tasks": [{"name": "T0", "work": 4.0}, {"name": "T1", "work": 3.0, "nf": True}], "links": [], "components": [{"name": "C0", "tasks": [1]}],
                "workplaces": [{"name": "WP0", "cap": 1.0, "targets": [1], "facilities": [{"name": "F0", "skills": {"T1": 1.0}, "cost": 2.0, "absence_late": [1, 3]}]}],
                "teams": [{"name": "TM0", "targets": [0, 1], "workers": [{"name": "W0", "skills": {"T0": 1.0}, "cost": 1.0, "absence_late": [0, 2]}, {"name": "W1", "skills": {"T1": 1.0}, "fskills": {"F0": 1.0}, "cost": 3.0, "absence_late": [2]}]}],
                "label": "usage:calendars-filled-after-construction"})
    # (U6) a workplace declared with capacity zero (a software lab) asked first under the skill-points rule, next to a hall of capacity one
    for wpr in ("SSP", "FSS"):
        out.append({"tasks": [{"name": "rack", "work": 3.0, "nf": True, "wprule": wpr}], "links": [], "components": [{"name": "R", "tasks": [0], "space": 1.0}],
                    "workplaces": [{"name": "lab", "cap": 0, "targets": [0], "facilities": [{"name": "bench", "skills": {"rack": 2.0}}, {"name": "bench2", "skills": {"rack": 2.0}}]},
                                   {"name": "hall", "cap": 1.0, "targets": [0], "facilities": [{"name": "rig", "skills": {"rack": 1.0}}]}],
                    "teams": [{"name": "TM0", "targets": [0], "workers": [{"name": "W0", "skills": {"rack": 1.0}, "fskills": {"bench": 1.0, "bench2": 1.0, "rig": 1.0}}]}],
                    "label": "usage:zero-capacity-workplace:%s" % wpr})
    return out


def usage_items(rules=("TSLACK",)):
    out = []
    for sp in usage_specs():
        for rule in rules:
            out.append((sp, {"rule": rule, "max_time": seq_bound(sp) + 10}))
            out.append((sp, {"rule": rule, "absence": [1], "max_time": seq_bound(sp) + 12}))
        out.append((sp, {"rule": rules[0], "presim": 1, "max_time": seq_bound(sp) + 10}))  # a second run on the same objects
        who = worker_names(sp)[:1] + facility_names(sp)[:1]
        if who and "calendars" not in sp.get("label", ""):
            # a forward run after a backward run (and after a backward run with unreversed logs) on objects with personal calendars that are not symmetric in the run
            ra = {w: [1] if i == 0 else [0, 2] for i, w in enumerate(who)}
            out.append((sp, {"rule": rules[0], "presim_back": 1, "res_absence": ra, "max_time": seq_bound(sp) + 14}))
            out.append((sp, {"rule": rules[0], "presim_back": 1, "presim_back_rev": False, "res_absence": ra, "max_time": seq_bound(sp) + 14}))
    return out


def revised_calendar_items(rules=("TSLACK",)):
    """runs stopped at step k whose continuation is given ANOTHER project-wide calendar (and another automatic-task flag) than the part before the stop"""
    out = []
    models = [with_teams(fl, "POOL2") for fl in list(flows(3, ("FS", "SS"), (2, 3)))[::4]] + auto_component_specs()[::3] + list(fac_specs("quick"))[::23]
    for sp in models:
        for k in (2, 3):
            for a1, a2 in (([1, 5, 6], [4]), ([k, k + 1], []), ([], [k, k + 1]), ([0, k + 1], [0]), ([k], [k + 1]), ([1, k, k + 2], [k + 1])):  # (steps k.. lie after the stop: planned off in one calendar, not in the other)
                for f1, f2 in ((False, False), (True, False), (False, True)):
                    out.append((sp, {"rule": rules[0], "resume_from": k, "first_absence": a1, "absence": a2, "first_auto_abs": f1, "auto_abs": f2, "max_time": seq_bound(sp) + 16}))
    return out


def looked_at_items(rules=("TSLACK",)):
    """runs stopped at step k, looked at through every read-only helper (queries without filter, chart data builders, printing), and continued"""
    out = []
    models = [with_teams(fl, "TWOTEAM") for fl in list(flows(3, ("FS", "SS", "FF"), (2, 3)))[::61]] + [with_teams(fl, "MIX") for fl in list(flows(2, KINDS4, (1.5, 3)))[::5]]
    models += auto_component_specs()[::3] + list(fac_specs("quick"))[::19] + nested_running_specs()[-2:] + [oven_spec(3.0)]
    for sp in models:
        for k in (1, 2, 3):
            for rule in rules[:1]:
                out.append((sp, {"rule": rule, "resume_from": k, "pause_queries": True, "max_time": seq_bound(sp) + 12}))
        out.append((sp, {"rule": rules[0], "resume_from": 2, "pause_queries": True, "absence": [1, 3], "max_time": seq_bound(sp) + 14}))
        out.append((sp, {"rule": rules[0], "presim_queries": True, "max_time": seq_bound(sp) + 12}))  # ... and looked at before the very first run
    return out


_SUBDIR = {}


def _subproject_file():
    """a small project simulated successfully and saved, to configure sub-project tasks from (one file per process tree, removed by its creator at exit)"""
    import atexit
    import os
    import shutil
    import tempfile

    if "path" not in _SUBDIR:
        from . import spec as S

        d = tempfile.mkdtemp(prefix="verif-sub-")
        pid = os.getpid()
        atexit.register(lambda: os.getpid() == pid and shutil.rmtree(d, ignore_errors=True))
        m = S.build(with_teams({"tasks": [{"name": "T0", "work": 2.0}, {"name": "T1", "work": 1.0}], "links": [[0, 1, "FS"]]}, "POOL1"))
        m.project.simulate(max_time=30, absence_time_list=[])
        path = os.path.join(d, "sub.json")
        m.project.write_simple_json(path)
        _SUBDIR["path"], _SUBDIR["duration"] = path, float(m.project.time)
    return _SUBDIR["path"], _SUBDIR["duration"]


def reconfigured_subproject_items(rules=("TSLACK",)):
    """a sub-project task worked by the parent's own people (its size is the saved sub-project's duration), configured from its file before the run and
    configured again from the same file at a stop - while it waits, while it is being worked on, after it is done - and the run continued"""
    path, dur = _subproject_file()
    sp = {"tasks": [{"name": "T0", "work": 1.0}, {"name": "S1", "work": dur, "sub": {"file_path": path, "auto": False}}, {"name": "T2", "work": 2.0}, {"name": "T3", "work": 3.0}],
          "links": [[0, 1, "FS"], [1, 2, "FS"]],
          "teams": [{"name": "TM0", "targets": [0, 1, 2, 3], "workers": [{"name": "W0", "skills": {"T0": 1.0, "S1": 1.0, "T2": 1.0}, "cost": 1.0}, {"name": "W1", "skills": {"T3": 1.0, "S1": 1.0}, "cost": 2.0}]}],
          "subproject_setup": "shared-file", "label": "worked-subproject-reconfigured"}
    out = []
    for k in (1, 2, 3, 4, 5):
        out.append((sp, {"rule": rules[0], "resume_from": k, "pause_reconfigure": True, "max_time": 24}))
    out.append((sp, {"rule": rules[0], "resume_from": 2, "pause_reconfigure": True, "pause_queries": True, "absence": [1, 3], "max_time": 26}))
    return out


def extra_items(rules=("TSLACK",), calendars=True):
    """round 13: other ways of building the object graph, and continuations planned with another calendar / flag than the part before the stop;
    round 15: runs looked at through every read-only helper at a stop"""
    return usage_items(rules) + looked_at_items(rules) + reconfigured_subproject_items(rules) + (revised_calendar_items(rules) if calendars else [])


def stuck_component_specs():
    """a component with two sequential machine tasks; the second task's workplace (the hall) is full for a long while, so the component stays in the first
    workplace, whose second machine is skilled for the second task although that workplace is not assigned to it; the second task may name machines by ID"""
    out = []
    for fixf in (None, ["F1"], ["F1", "F2"], ["F2"]):
        out.append({"tasks": [{"name": "T0", "work": 2.0, "nf": True}, {"name": "T1", "work": 2.0, "nf": True, "fixf": fixf}, {"name": "T2", "work": 9.0, "nf": True}], "links": [[0, 1, "FS"]],
                    "components": [{"name": "C0", "tasks": [0, 1], "space": 1.0}, {"name": "C2", "tasks": [2], "space": 1.0}],
                    "workplaces": [{"name": "WP0", "cap": 1.0, "targets": [1, 2], "facilities": [{"name": "F2", "skills": {"T2": 1.0, "T1": 1.0}, "cost": 1.0}]},
                                   {"name": "WP1", "cap": 1.0, "targets": [0], "facilities": [{"name": "F0", "skills": {"T0": 1.0}, "cost": 1.0}, {"name": "F1", "skills": {"T1": 1.0}, "cost": 1.0}]}],
                    "teams": [{"name": "TM0", "targets": [0, 1, 2], "workers": [{"name": "W0", "skills": {"T0": 1.0, "T1": 1.0}, "fskills": {"F0": 1.0, "F1": 1.0, "F2": 1.0}, "cost": 1.0},
                                                                               {"name": "W1", "skills": {"T2": 1.0}, "fskills": {"F2": 1.0}, "cost": 1.0}]}],
                    "label": "stuck-component:fixf=%s" % (fixf,)})
    return out


def shared_pinned_machine_specs():
    """two or three machine tasks READY together whose parts share one roomy workplace and which name their machines by ID - the same machine, overlapping
    lists, one task naming none; enough skilled workers for all of them, so only the machine side decides who may start"""
    out = []
    pins = ((["F0"], ["F0"]), (["F0"], None), (None, ["F0"]), (["F0", "F1"], ["F0"]), (["F0"], ["F0", "F1"]), (["F1"], ["F0"]), ([], ["F0"]), (["F0"], ["F0"], ["F0"]), (["F0", "F1"], ["F0", "F1"], ["F1"]))
    for pin in pins:
        n = len(pin)
        for nfac in (1, 2):
            if nfac == 1 and any(p and "F1" in p for p in pin):
                continue
            for works in ((3.0, 2.0, 2.0), (1.0, 2.0, 1.0)):
                names = [tname(i) for i in range(n)]
                skills = {nm: 1.0 for nm in names}
                facs = [{"name": "F%d" % j, "skills": dict(skills), "cost": 1.0} for j in range(nfac)]
                out.append({"tasks": [{"name": names[i], "work": works[i], "nf": True, "fixf": pin[i]} for i in range(n)], "links": [],
                            "components": [{"name": "C%d" % i, "tasks": [i], "space": 1.0} for i in range(n)],
                            "workplaces": [{"name": "WP0", "cap": float(n), "targets": list(range(n)), "facilities": facs}],
                            "teams": [{"name": "TM0", "targets": list(range(n)), "workers": [{"name": "W%d" % j, "skills": dict(skills), "fskills": {"F0": 1.0, "F1": 1.0}, "cost": 1.0} for j in range(n)]}],
                            "label": "shared-pinned-machine:%s:%d:%s" % (pin, nfac, works[:n])})
    return out


def named_machine_specs():
    """a machine task that names its machine(s) by ID next to a plain task competing for the same worker; two machines share one name"""
    out = []
    for fixf in (["F0"], ["F1"], None):
        for frule in ("SSP", "HSV"):
            for works in ((2.0, 4.0), (4.0, 2.0)):
                f0 = {"name": "lathe", "id": "F0", "skills": {"H": 1.0}, "cost": 1.0}
                f1 = {"name": "lathe", "id": "F1", "skills": {"H": 1.5}, "cost": 1.0}
                out.append({"tasks": [{"name": "H", "work": works[0], "nf": True, "fixf": fixf, "frule": frule}, {"name": "L", "work": works[1]}], "links": [], "components": [{"name": "C0", "tasks": [0]}],
                            "workplaces": [{"name": "WP0", "cap": 1.0, "targets": [0], "facilities": [f0, f1]}],
                            "teams": [{"name": "TM0", "targets": [0, 1], "workers": [{"name": "w", "skills": {"H": 1.0, "L": 1.0}, "fskills": {"lathe": 1.0}, "cost": 1.0}]}],
                            "label": "named-machine:%s:%s:%s" % (fixf, frule, works)})
    return out


def half_wired_workplace_specs():
    """task H is assigned to W1 through append_targeted_task and to W2 through the constructor keyword only (W2 knows H, H does not know W2); H's component is at
    W2 (its first task was done there) and W1 is occupied; a plain task L competes for H's worker"""
    out = []
    for hw, lw in ((3.0, 4.0), (4.0, 3.0), (2.0, 2.0)):
        out.append({"tasks": [{"name": "T0", "work": 1.0, "nf": True}, {"name": "H", "work": hw, "nf": True}, {"name": "L", "work": lw}, {"name": "X", "work": 9.0, "nf": True}], "links": [[0, 1, "FS"]],
                    "components": [{"name": "C0", "tasks": [0, 1], "space": 1.0}, {"name": "CX", "tasks": [3], "space": 1.0}],
                    "workplaces": [{"name": "W1", "cap": 1.0, "targets": [1, 3], "facilities": [{"name": "F1", "skills": {"H": 1.0, "X": 1.0}}]},
                                   {"name": "W2", "cap": 1.0, "targets": [0, 1], "targets_ctor": [1], "facilities": [{"name": "F2", "skills": {"T0": 1.0, "H": 1.0}}]}],
                    "teams": [{"name": "TM0", "targets": [0, 1, 2, 3], "workers": [{"name": "w", "skills": {"T0": 1.0, "H": 1.0, "L": 1.0}, "fskills": {"F1": 1.0, "F2": 1.0}, "cost": 1.0},
                                                                                  {"name": "v", "skills": {"X": 1.0}, "fskills": {"F1": 1.0}, "cost": 1.0}]}],
                    "label": "half-wired-workplace:%s:%s" % (hw, lw)})
    return out


def stationed_worker_specs():
    """workers stationed at a workplace (main_workplace_id) under the default MW worker rule: (a) a skilled, licensed worker of a team that is NOT assigned to the
    machine task is stationed at the machine's workplace, the assigned team's worker is not; (b) an unskilled inspector is stationed there, the turner visits"""
    out = []
    for mainwp_a in (None, "WP0"):
        out.append({"tasks": [{"name": "T", "work": 3.0, "nf": True}, {"name": "U", "work": 2.0}], "links": [], "components": [{"name": "C0", "tasks": [0]}],
                    "workplaces": [{"name": "WP0", "cap": 1.0, "targets": [0], "facilities": [{"name": "F0", "skills": {"T": 1.0}, "cost": 1.0}]}],
                    "teams": [{"name": "TA", "targets": [0], "workers": [{"name": "a1", "skills": {"T": 1.0}, "fskills": {"F0": 1.0}, "mainwp": mainwp_a, "cost": 1.0}]},
                              {"name": "TB", "targets": [1], "workers": [{"name": "b1", "skills": {"T": 1.0, "U": 1.0}, "fskills": {"F0": 1.0}, "mainwp": "WP0", "cost": 1.0}]}],
                    "label": "stationed:foreign-team-worker-at-the-machine:%s" % mainwp_a})
    for mainwp_b in (None, "elsewhere"):
        out.append({"tasks": [{"name": "turning", "work": 3.0, "nf": True}, {"name": "inspect", "work": 1.0}], "links": [[0, 1, "FS"]], "components": [{"name": "C0", "tasks": [0]}],
                    "workplaces": [{"name": "shop", "cap": 1.0, "targets": [0], "facilities": [{"name": "lathe", "skills": {"turning": 1.0}, "cost": 1.0}]}],
                    "teams": [{"name": "TM0", "targets": [0, 1], "workers": [{"name": "ann", "skills": {"inspect": 1.0}, "mainwp": "shop", "cost": 1.0},
                                                                          {"name": "bob", "skills": {"turning": 1.0}, "fskills": {"lathe": 1.0}, "mainwp": mainwp_b, "cost": 1.0}]}],
                    "label": "stationed:inspector-at-the-shop-turner-visiting:%s" % mainwp_b})
    return out
