"""Exhaustive generators of small-scope model families (every element is yielded; no sampling)."""
import itertools

KINDS4 = ("FS", "SS", "FF", "SF")
ALL_TASK_RULES = ("TSLACK", "EST", "SPT", "LPT", "FIFO", "LRPT", "SRPT", "LWRPT", "SWRPT")


def tname(i):
    return "T%d" % i


def flows(n, kinds=KINDS4, works=(1, 2), names=None):
    """All workflows on n tasks: for every pair i<j one link of `kinds` or none; every work vector."""
    pairs = [(i, j) for i in range(n) for j in range(i + 1, n)]
    opts = (None,) + tuple(kinds)
    for choice in itertools.product(opts, repeat=len(pairs)):
        links = [[i, j, k] for (i, j), k in zip(pairs, choice) if k is not None]
        for wv in itertools.product(works, repeat=n):
            yield {
                "tasks": [{"name": tname(i), "work": float(wv[i])} for i in range(n)],
                "links": links,
            }


def fs_dags(n):
    """All FS-only DAGs on n nodes (edge sets over pairs i<j)."""
    pairs = [(i, j) for i in range(n) for j in range(i + 1, n)]
    for mask in range(1 << len(pairs)):
        yield [[i, j, "FS"] for b, (i, j) in enumerate(pairs) if mask >> b & 1]


def team_layout(kind, n, cost=(1.0, 2.0, 3.0)):
    """Named worker layouts for n tasks T0..Tn-1 (facility-free)."""
    names = [tname(i) for i in range(n)]
    allt = list(range(n))
    full = {nm: 1.0 for nm in names}
    if kind == "POOL1":
        return [{"name": "TM0", "targets": allt, "workers": [{"name": "W0", "skills": dict(full), "cost": cost[0]}]}]
    if kind == "POOL2":
        return [
            {
                "name": "TM0",
                "targets": allt,
                "workers": [
                    {"name": "W0", "skills": dict(full), "cost": cost[0]},
                    {"name": "W1", "skills": dict(full), "cost": cost[1]},
                ],
            }
        ]
    if kind == "DED":
        return [
            {
                "name": "TM0",
                "targets": allt,
                "workers": [{"name": "W%d" % i, "skills": {names[i]: 1.0}, "cost": cost[i % len(cost)]} for i in range(n)],
            }
        ]
    if kind == "MIX":
        # W0 fast on T0, slow elsewhere; W1 zero on T0 (explicit 0), missing key for the last task
        w0 = {nm: 0.5 for nm in names}
        w0[names[0]] = 2.0
        w1 = {nm: 1.0 for nm in names}
        w1[names[0]] = 0.0
        if n > 1:
            del w1[names[-1]]
        w2 = {names[-1]: 1.5}
        return [
            {
                "name": "TM0",
                "targets": allt,
                "workers": [
                    {"name": "W0", "skills": w0, "cost": cost[0]},
                    {"name": "W1", "skills": w1, "cost": cost[1]},
                    {"name": "W2", "skills": w2, "cost": cost[2]},
                ],
            }
        ]
    if kind == "SOLO":
        return [
            {
                "name": "TM0",
                "targets": allt,
                "workers": [
                    {"name": "W0", "skills": dict(full), "cost": cost[0], "solo": True},
                    {"name": "W1", "skills": dict(full), "cost": cost[1]},
                    {"name": "W2", "skills": dict(full), "cost": cost[2]},
                ],
            }
        ]
    if kind == "TWOTEAM":
        # eligibility only through team targeting: TM0 targets all but the last task, TM1 only the last two
        return [
            {"name": "TM0", "targets": allt[:-1] if n > 1 else allt, "workers": [{"name": "W0", "skills": dict(full), "cost": cost[0]}]},
            {"name": "TM1", "targets": allt[-2:], "workers": [{"name": "W1", "skills": dict(full), "cost": cost[1]}]},
            {"name": "TM2", "targets": [], "workers": [{"name": "W2", "skills": dict(full), "cost": cost[2]}]},
        ]
    raise KeyError(kind)


def with_teams(flow, kind):
    sp = dict(flow)
    sp["teams"] = team_layout(kind, len(flow["tasks"]))
    return sp


def worker_names(spec):
    return [w["name"] for tm in spec.get("teams", []) for w in tm.get("workers", [])]


def facility_names(spec):
    return [f["name"] for wp in spec.get("workplaces", []) for f in wp.get("facilities", [])]


def seq_bound(spec):
    """Total sequential work bound: sum over tasks of ceil(work / slowest positive skill or unit rate) + 1."""
    import math

    tot = 0
    for ts in spec["tasks"]:
        rem = ts.get("work", 1.0) * (1.0 - (ts.get("progress") or 0.0))
        rates = []
        if ts.get("auto"):
            rates.append(ts.get("unit") or 1.0)
        for tm in spec.get("teams", []):
            for w in tm.get("workers", []):
                v = w.get("skills", {}).get(ts["name"], 0.0)
                if v > 1e-10:
                    fr = [1.0]
                    if ts.get("nf"):
                        fr = [
                            f.get("skills", {}).get(ts["name"], 0.0)
                            for wp in spec.get("workplaces", [])
                            for f in wp.get("facilities", [])
                            if f.get("skills", {}).get(ts["name"], 0.0) > 1e-10
                        ] or [1.0]
                    rates.append(v * min(fr))
        r = min(rates) if rates else 1.0
        tot += int(math.ceil(rem / r - 1e-9)) + 1
    return tot
