"""CLI:  ./check CNN [--tier quick|thorough] [--replay FILE]

exit 0: the property held on everything explored (or only listed known findings occurred)
exit 1: a line `VIOLATION property=<id> replay=<path>` was printed for each new violation signature
exit 2: harness error (never a verdict)
"""
import argparse
import hashlib
import importlib
import json
import os
import sys
import time
import traceback

HERE = os.path.dirname(os.path.dirname(os.path.abspath(__file__)))


def load_known():
    p = os.path.join(HERE, "known_findings.json")
    if not os.path.exists(p):
        return []
    return json.load(open(p))


def main(argv=None):
    ap = argparse.ArgumentParser()
    ap.add_argument("prop")
    ap.add_argument("--tier", default=os.environ.get("VERIF_TIER", "quick"), choices=["quick", "thorough"])
    ap.add_argument("--replay", default=None)
    ap.add_argument("--nproc", type=int, default=None)
    a = ap.parse_args(argv)
    pid = a.prop.upper()
    seed = int(os.environ.get("VERIF_SEED", "0") or 0)
    if a.nproc:
        os.environ["VERIF_NPROC"] = str(a.nproc)
    t0 = time.time()
    from . import bootstrap  # noqa: F401
    from . import evidence

    mod = importlib.import_module("mc.props.%s" % pid.lower())
    known = [k for k in load_known() if k.get("property") == pid and k.get("status", "known") == "known"]
    known_sigs = {k["sig"]: k for k in known}

    if a.replay:
        v = json.load(open(a.replay))
        got = mod.replay(v)
        sigs = sorted(set(x.get("sig") for x in got))
        if v.get("sig") in sigs:
            print("REPLAY reproduces: property=%s sig=%s" % (pid, v.get("sig")))
            for x in got:
                if x.get("sig") == v.get("sig"):
                    print(json.dumps(x.get("detail"), default=str)[:2000])
                    break
            if v.get("sig") in known_sigs:
                print("KNOWN-FINDING: property=%s %s" % (pid, known_sigs[v["sig"]]["description"]))
                return 0
            print("VIOLATION property=%s replay=%s" % (pid, a.replay))
            return 1
        print("REPLAY does not reproduce (sigs now: %s)" % sigs)
        return 0

    col, meta = mod.run(a.tier, seed)
    wall = time.time() - t0

    # replay discipline: every kept violation is re-executed from scratch and must reproduce
    new_sigs = {}
    known_hit = {}
    unconfirmed = {}
    for v in col.violations:
        sig = v.get("sig", "?")
        if sig in known_sigs:
            known_hit.setdefault(sig, v)
            continue
        if sig in new_sigs:
            continue
        try:
            again = mod.replay(v)
        except Exception:
            sys.stderr.write("HARNESS ERROR: replay raised\n%s\n" % traceback.format_exc())
            return 2
        if sig not in set(x.get("sig") for x in again) and again:
            # the same execution violates the property again, but not with the identical signature: the library's behaviour
            # varies between executions of one input (object addresses, uuid4 IDs of helper objects); still a violation
            v = dict(v, note="re-execution violated the property with a different signature: %s" % sorted(set(x.get("sig") for x in again))[:3])
        elif sig not in set(x.get("sig") for x in again) and v.get("address_dependent"):
            # the two compared executions differ only in object addresses; the difference itself is the evidence
            v = dict(v, note="observed once; not reproducible on demand because it depends on memory addresses")
        elif sig not in set(x.get("sig") for x in again):
            # not reproducible on demand: never reported as a violation on its own (it may be nondeterminism of the harness);
            # if nothing else confirms, the run ends as a harness error (exit 2), otherwise the confirmed violations decide
            unconfirmed[sig] = v
            sys.stderr.write("UNCONFIRMED: violation %s did not reproduce on re-execution\n%s\n" % (sig, json.dumps(v, default=str)[:1500]))
            continue
        new_sigs[sig] = v
    # sigs counted but with no kept instance
    for sig, n in col.viol_sigs.items():
        if sig in unconfirmed:
            continue
        if n > 0 and sig not in known_sigs and sig not in new_sigs:
            new_sigs[sig] = {"sig": sig, "note": "instance not kept (cap)", "property": pid}
        if n > 0 and sig in known_sigs and sig not in known_hit:
            known_hit[sig] = {"sig": sig}

    rc = 0
    for sig in sorted(known_hit):
        print("KNOWN-FINDING: property=%s %s [%s] (%d occurrences)" % (pid, known_sigs[sig]["description"], sig, col.viol_sigs[sig]))
    OUT = os.environ.get("VERIF_OUT", HERE)
    os.makedirs(os.path.join(OUT, "replays"), exist_ok=True)
    for sig in sorted(new_sigs):
        v = dict(new_sigs[sig])
        v["property"] = pid
        hid = hashlib.sha1(json.dumps(v, sort_keys=True, default=str).encode()).hexdigest()[:10]
        path = os.path.join(OUT, "replays", "%s-%s.json" % (pid, hid))
        with open(path, "w") as f:
            json.dump(v, f, indent=1, sort_keys=True, default=str)
        print("VIOLATION property=%s replay=%s" % (pid, path))
        print("  sig=%s occurrences=%d detail=%s" % (sig, col.viol_sigs.get(sig, 1), json.dumps(v.get("detail"), default=str)[:600]))
        rc = 1
    evidence.write(pid, a.tier, seed, col, meta, wall, new=len(new_sigs), known=sorted(known_hit))
    if unconfirmed and rc == 0:
        sys.stderr.write("HARNESS ERROR: %d violation signature(s) seen during exploration did not reproduce on re-execution and nothing else confirmed them\n" % len(unconfirmed))
        return 2
    vac = meta.get("vacuous")
    if vac:
        sys.stderr.write("HARNESS ERROR: vacuous exploration: %s\n" % vac)
        return 2
    print(
        "%s tier=%s executions=%d states=%d transitions=%d nontrivial=%d outcomes=%d aborted=%d violations=%d (new sigs %d, known sigs %d) wall=%.1fs"
        % (pid, a.tier, col.evaluations, len(col.states), len(col.transitions), len(col.nontrivial), len(col.outcomes),
           sum(col.aborted.values()), col.nviol, len(new_sigs), len(known_hit), time.time() - t0)
    )
    return rc


if __name__ == "__main__":
    try:
        sys.exit(main())
    except SystemExit:
        raise
    except Exception:
        sys.stderr.write("HARNESS ERROR\n%s\n" % traceback.format_exc())
        sys.exit(2)
