"""Exploration engines: 16-process fan-out, result collector, environment explorer (E2), helpers.

All engines enumerate their space completely (within the stated bounds); nothing is sampled.
"""
import collections
import hashlib
import itertools
import multiprocessing
import os
import sys
import time

from . import runner

NPROC = int(os.environ.get("VERIF_NPROC", "16"))
MAX_KEEP_VIOL = 40


def h64(obj):
    """Process-independent 64-bit hash of a canonical (repr-able) object."""
    return int.from_bytes(hashlib.blake2b(repr(obj).encode(), digest_size=8).digest(), "big")


class Collector(object):
    """What one check run covered; mergeable across worker processes."""

    def __init__(self):
        self.evaluations = 0  # executions of the implementation
        self.states = set()  # hashes of distinct canonical states visited
        self.transitions = set()  # hashes of distinct (state, environment answer / operation) pairs
        self.nontrivial = set()  # hashes of distinct cases in which the antecedent was exercised
        self.outcomes = collections.Counter()  # distinct observed outcomes (vacuity indicator)
        self.checks = collections.Counter()  # monitor name -> number of evaluations of that monitor
        self.aborted = collections.Counter()  # executions ended by an exception of the library
        self.violations = []  # kept violations (dicts), capped
        self.nviol = 0
        self.viol_sigs = collections.Counter()
        self.samples = []
        self.caps = []
        self.extra = collections.Counter()

    def violation(self, v):
        self.nviol += 1
        self.viol_sigs[v.get("sig", "?")] += 1
        if self.viol_sigs[v.get("sig", "?")] <= 3 and len(self.violations) < MAX_KEEP_VIOL:
            self.violations.append(v)

    def sample(self, s, limit=3):
        if len(self.samples) < limit:
            self.samples.append(s)

    def merge(self, o):
        self.evaluations += o.evaluations
        self.states |= o.states
        self.transitions |= o.transitions
        self.nontrivial |= o.nontrivial
        self.outcomes.update(o.outcomes)
        self.checks.update(o.checks)
        self.aborted.update(o.aborted)
        self.extra.update(o.extra)
        for v in o.violations:
            if self.viol_sigs[v.get("sig", "?")] < 3 and len(self.violations) < MAX_KEEP_VIOL:
                self.violations.append(v)
            self.viol_sigs[v.get("sig", "?")] += 0
        self.viol_sigs.update(o.viol_sigs)
        self.nviol += o.nviol
        for s in o.samples:
            self.sample(s, limit=6)
        self.caps.extend(c for c in o.caps if c not in self.caps)
        return self


def _chunks(seq, n):
    seq = list(seq)
    k = max(1, (len(seq) + n - 1) // n)
    return [seq[i : i + k] for i in range(0, len(seq), k)]


_WORK = {}


def _call(args):
    key, idx = args
    fn, chunks = _WORK[key]
    return idx, fn(chunks[idx])


def fanout(items, fn, nproc=None, chunks_per_proc=6, seed=0):
    """Apply fn(list_of_items) -> Collector over all items with forked workers; merge in index order.

    The seed only rotates which chunk is started first; results are merged sorted by chunk index,
    so verdicts and counts do not depend on it.
    """
    nproc = nproc or NPROC
    items = list(items)
    if not items:
        return Collector()
    chunks = _chunks(items, nproc * chunks_per_proc)
    order = list(range(len(chunks)))
    if seed:
        r = seed % len(order)
        order = order[r:] + order[:r]
    if nproc <= 1 or len(chunks) == 1:
        res = {i: fn(chunks[i]) for i in order}
    else:
        key = id(chunks)
        _WORK[key] = (fn, chunks)
        ctx = multiprocessing.get_context("fork")
        with ctx.Pool(min(nproc, len(chunks))) as pool:
            res = dict(pool.imap_unordered(_call, [(key, i) for i in order]))
        del _WORK[key]
    total = Collector()
    for i in sorted(res):
        total.merge(res[i])
    return total


# ---------------------------------------------------------------------------------------------
# E2: environment explorer.  Every simulated step is a choice point; the menu is a list of
# answers, answer 0 = nobody absent, answer k>0 = the set menu[k] of absentees ("P" = project-wide).
# An execution = a prefix of answers followed by answer 0 until the run ends.  Exploration is
# breadth-first over prefixes with at most D non-default answers inside the horizon H, with
# state merging at choice points (see spec.canon for the correctness argument).
# ---------------------------------------------------------------------------------------------


def absences_from_prefix(prefix, menu):
    proj = []
    res = {}
    for t, a in enumerate(prefix):
        if a:
            for who in menu[a]:
                if who == "P":
                    proj.append(t)
                else:
                    res.setdefault(who, []).append(t)
    return proj, res


def make_menu(who, max_group=1):
    menu = [()]
    for k in range(1, max_group + 1):
        for g in itertools.combinations(who, k):
            menu.append(tuple(g))
    return menu


def explore_env(spec, base_opts, menu, H, D, on_exec, col, merge=True, canon_extra=None):
    """Explore all absence answers for `spec`; on_exec(ex, prefix) is called for every execution.

    Returns the number of executions.  col.states / col.transitions are filled with the canonical
    states at choice points and the (state, answer) pairs actually executed.
    """
    seen = {}  # canonical state -> list of (remaining horizon, remaining budget) already expanded
    queue = collections.deque([()])
    nexec = 0
    spec_h = h64(spec)
    static_abs = bool(base_opts.get("absence")) or any((base_opts.get("res_absence") or {}).values())
    while queue:
        prefix = queue.popleft()
        proj, res = absences_from_prefix(prefix, menu)
        opts = dict(base_opts)
        # a statically given list is passed on literally (it may be unsorted or contain repeated steps on purpose)
        base_abs = list(base_opts.get("absence", []))
        opts["absence"] = base_abs + [x for x in proj if x not in base_abs]
        ra = {k: list(v) for k, v in (base_opts.get("res_absence") or {}).items()}
        for k, v in res.items():
            ra[k] = sorted(set(ra.get(k, []) + v))
        opts["res_absence"] = ra
        opts["want_canon"] = True
        ex = runner.run(spec, opts)
        nexec += 1
        col.evaluations += 1
        on_exec(ex, prefix)
        d = sum(1 for a in prefix if a)
        # transitions actually executed by this run: (state at step j, answer at step j)
        for j in sorted(ex.canon):
            cj = ex.canon[j]
            hj = hash((spec_h, cj))
            col.states.add(hj)
            a = prefix[j] if j < len(prefix) else 0
            if j < ex.steps:
                col.transitions.add(hash((hj, a)))
        if d >= D:
            continue
        for j in range(len(prefix), min(H, ex.steps)):
            cj = ex.canon.get(j)
            if cj is None:
                break
            if merge:
                rem = (H - j, D - d)
                # with statically given absences absolute time matters: merge only at equal steps
                dom = seen.setdefault((cj, j) if static_abs else cj, [])
                if any(r[0] >= rem[0] and r[1] >= rem[1] for r in dom):
                    continue
                dom.append(rem)
            for a in range(1, len(menu)):
                queue.append(prefix + (0,) * (j - len(prefix)) + (a,))
    return nexec
