"""Run one execution of the real simulator from (spec, opts) on fresh objects and observe it.

opts (all optional):
  rule: task priority rule name (default TSLACK); absence: project-wide absence list;
  auto_abs: perform_auto_task_while_absence_time; max_time; res_absence: {resource name: [steps]};
  phases: phases to snapshot (default all four); want_canon: record canonical state at 'updated';
  fault: [step, phase] -> the observer raises InjectedFault there; plain: build with library classes;
  presim: number of earlier simulate() calls on the same object before the observed one (presim_absence, presim_cut: their absence list / max_time);
  resume_from: k -> simulate(max_time=k) first, the observed run resumes it (state/log initialisation off, or restart_flags=(state, log));
  build_from + edit: objects built from spec `build_from`, run `presim` times, then edited in place (mc/edits.py) into `spec`;
  post_insert: list -> insert_absence_time_list(list) after the run; post_remove: remove_absence_time_list() after the run ("after-insert": after the post_insert); post_reverse: n calls of project.reverse_log_information() after the run; reload: write/read JSON after the run and look at the loaded project;
  absence_as: "float" / "numpy" -> the project-wide list is handed over as floats / numpy integers of the same values; unit_time: passed to simulate(); backward: observe backward_simulate() instead (options due, rev);
  flags: (state, log) initialisation flags of the observed call on a never-simulated model; error_tol: passed to simulate();
  presim_back: number of earlier backward_simulate() calls on the same object (presim_back_rev=False: with reverse_log_information=False);
  presim_queries: after the earlier runs all read-only helpers (get_*_list, extract_*, chart/network data, print_*) are called once;
  alloc_fault: [k, n] -> an earlier run is aborted inside the allocation of step k (the n-th can_add_resources call of that step raises); the observed run continues it;
  first_absence / first_auto_abs: with resume_from, the absence list / automatic-task flag of the part before the stop (the continuation uses `absence` / `auto_abs`);
  pause_queries: with resume_from, all read-only helpers are called once at the stop; pause_reconfigure: sub-project tasks are configured again from their files there;
  resume_via_json: with resume_from, the stopped project is written to JSON, read into a new project and continued there.
"""
import traceback

from . import bootstrap
from . import spec as S

ALL_PHASES = ("updated", "allocated", "performed", "recorded")


class InjectedFault(Exception):
    pass


class InjectedInterrupt(BaseException):
    """an abort that is not an Exception subclass (like KeyboardInterrupt / SystemExit)"""


class Exec(object):
    __slots__ = (
        "spec", "opts", "m", "trace", "canon", "error", "error_tb", "placements", "steps", "absent_steps", "lib_working",
        "defaults_after", "log_start",
    )

    def __init__(self, spec, opts):
        self.spec = spec
        self.opts = opts
        self.m = None
        self.trace = []  # (t, phase, working, snapshot)
        self.canon = {}  # step -> canonical state at 'updated'
        self.error = None
        self.error_tb = None
        self.placements = {}  # (step, "update"|"alloc") -> placement events of that part of the step
        self.steps = 0
        self.absent_steps = set()
        self.log_start = 0  # first log index written by the observed run's life cycle (> 0 when states were reset but logs kept)
        self.lib_working = {}  # step -> the library's own working/absence flag (the trace carries the flag derived from the list given to simulate())

    @property
    def project(self):
        return self.m.project

    def by_step(self):
        """step -> {phase: (working, snapshot)}"""
        out = {}
        for t, ph, working, sn in self.trace:
            out.setdefault(t, {})[ph] = (working, sn)
        return out


def prepare(spec, opts):
    # build_from: the objects are built from an earlier version of the model and edited later (opts["edit"]) into `spec`
    if spec.get("subproject_setup") == "shared-file":
        # (the saved sub-project lives in a per-process-tree scratch file: a replay in a later process writes it again)
        import copy
        from . import families

        path, _ = families._subproject_file()
        spec = copy.deepcopy(spec)
        for ts in spec["tasks"]:
            if ts.get("sub") is not None and ts["sub"].get("file_path"):
                ts["sub"]["file_path"] = path
    m = S.build(opts.get("build_from") or spec, plain=bool(opts.get("plain")))
    if spec.get("subproject_setup"):
        for t_ in m.tasks:  # sub-project tasks take their size from the saved project they stand for
            if hasattr(t_, "set_all_attributes_from_json") and getattr(t_, "file_path", None):
                t_.set_all_attributes_from_json(remove_absence_time_list=False)
                t_.set_work_amount_progress_of_unit_step_time(m.project.unit_timedelta)
    for name, lst in (opts.get("res_absence") or {}).items():
        if name in m.byname:
            m.byname[name].absence_time_list = list(lst)
    return m


def sim_kwargs(opts):
    kw = dict(
        task_priority_rule=S.TASK_RULES[opts.get("rule", "TSLACK")],
        absence_time_list=list(opts.get("absence", [])),
        perform_auto_task_while_absence_time=bool(opts.get("auto_abs", False)),
        max_time=opts.get("max_time", 200),
    )
    if opts.get("absence_as") == "float":
        kw["absence_time_list"] = [float(a) for a in kw["absence_time_list"]]  # step numbers written as floats (2.0 == 2)
    elif opts.get("absence_as") == "numpy":
        import numpy

        kw["absence_time_list"] = [numpy.int64(a) for a in kw["absence_time_list"]]  # a calendar computed with numpy
    if opts.get("unit_time") is not None:
        kw["unit_time"] = opts["unit_time"]
    if opts.get("error_tol") is not None:
        kw["error_tol"] = opts["error_tol"]
    return kw


def make_observer(ex, phases=ALL_PHASES, want_canon=False, fault=None, extra=None, fault_type=None):
    phases = set(phases)
    fault = tuple(fault) if fault else None
    fault_type = fault_type or InjectedFault

    absn = set((ex.opts or {}).get("absence") or ())

    def obs(project, phase, working):
        t = project.time
        if working is not None:
            ex.lib_working[t] = working
        # oracle side: whether step t is a project-wide absence step is decided by the list given to simulate(), not by the library
        lib_flag, working = working, t not in absn
        if phase == "updated":
            ex.placements.setdefault((t, "update"), []).extend(S.PLACEMENT_LOG)
            del S.PLACEMENT_LOG[:]
            if want_canon:
                ex.canon[t] = S.canon(project)
        elif phase == "allocated":
            ex.placements.setdefault((t, "alloc"), []).extend(S.PLACEMENT_LOG)
            del S.PLACEMENT_LOG[:]
            if lib_flag is False:
                ex.absent_steps.add(t)
        elif phase == "recorded":
            ex.steps = max(ex.steps, t + 1)
        if phase in phases:
            ex.trace.append((t, phase, working, S.snap(project)))
        if extra is not None:
            extra(project, phase, lib_flag)  # harness-side observers (log-vs-live comparison) follow the run as the library performs it
        if fault is not None and fault == (t, phase):
            raise fault_type("injected at step %d phase %s" % (t, phase))

    return obs


def read_only_calls(project):
    """every read-only helper of the public API with its default arguments (queries, extract_*, chart data, network data, printing):
    none of them may change anything a later run can see.  Plot-drawing helpers (matplotlib / plotly figures) are left out."""
    import contextlib
    import io
    import datetime as _dt

    p = project
    sink = io.StringIO()
    init, unit = _dt.datetime(2021, 3, 1, 9, 0, 0), _dt.timedelta(minutes=1)
    calls = []
    org, wf, pr = p.organization, p.workflow, p.product
    calls += [org.get_team_list, org.get_workplace_list, org.get_worker_list, org.get_facility_list, wf.get_task_list, pr.get_component_list]
    for tm in org.team_list:
        calls += [tm.get_worker_list, lambda tm=tm: tm.extract_free_worker_list([0]), lambda tm=tm: tm.extract_working_worker_list([0]),
                  lambda tm=tm: tm.create_data_for_gantt_plotly(init, unit), lambda tm=tm: tm.create_data_for_cost_history_plotly(init, unit)]
    for wp in org.workplace_list:
        calls += [wp.get_facility_list, lambda wp=wp: wp.extract_free_facility_list([0]), lambda wp=wp: wp.extract_working_facility_list([0]),
                  lambda wp=wp: wp.create_data_for_gantt_plotly(init, unit), lambda wp=wp: wp.create_data_for_cost_history_plotly(init, unit), wp.get_available_space_size]
    calls += [lambda: wf.extract_working_task_list([0]), lambda: wf.extract_finished_task_list([0]), lambda: pr.extract_working_component_list([0]),
              lambda: wf.create_data_for_gantt_plotly(init, unit), lambda: pr.create_data_for_gantt_plotly(init, unit), lambda: org.create_data_for_gantt_plotly(init, unit),
              lambda: org.create_data_for_cost_history_plotly(init, unit), wf.get_networkx_graph, pr.get_networkx_graph, org.get_networkx_graph, p.get_networkx_graph,
              lambda: p.print_log(0), p.print_all_log_in_chronological_order, wf.print_all_log_in_chronological_order, pr.print_all_log_in_chronological_order,
              org.print_all_log_in_chronological_order, lambda: str(p), lambda: [str(x) for x in wf.task_list + pr.component_list + org.team_list + org.workplace_list]]
    n = 0
    with contextlib.redirect_stdout(sink):
        for c in calls:
            try:
                c()
                n += 1
            except Exception:
                pass  # a helper that cannot be called this way is not the subject here
    return n


def run(spec, opts=None, model=None, call=None):
    """Execute project.simulate(**opts) on a fresh model built from spec; never raises."""
    opts = opts or {}
    ex = Exec(spec, opts)
    del S.PLACEMENT_LOG[:]
    try:
        ex.m = model if model is not None else prepare(spec, opts)
    except Exception as e:  # construction failure is reported like a crash
        ex.error = "build: %s: %s" % (type(e).__name__, e)
        ex.error_tb = traceback.format_exc()
        return ex
    obs = make_observer(
        ex,
        phases=opts.get("phases", ALL_PHASES),
        want_canon=bool(opts.get("want_canon")),
        fault=opts.get("fault"),
    )
    try:
        if opts.get("alloc_fault") is not None:
            # the observed run continues a run that was aborted in the middle of the allocation of step k: the n-th eligibility question
            # (BaseTask.can_add_resources) of that step raised; state and logs are kept as the abort left them
            from pDESy.model.base_task import BaseTask

            k_, n_ = opts["alloc_fault"]
            orig, cnt, proj = BaseTask.can_add_resources, [0], ex.m.project

            def _faulty(self, *a, **kw):
                if proj.time == k_:
                    cnt[0] += 1
                    if cnt[0] == n_:
                        raise InjectedFault("injected in the allocation of step %d (question %d)" % (k_, n_))
                return orig(self, *a, **kw)

            BaseTask.can_add_resources = _faulty
            try:
                ex.m.project.simulate(**sim_kwargs(opts))
            except InjectedFault:
                pass
            finally:
                BaseTask.can_add_resources = orig
        elif opts.get("resume_from") is not None:
            # the observed run continues a run that was stopped at step resume_from (state and logs kept)
            fo = dict(opts)
            if opts.get("first_absence") is not None:
                fo["absence"] = opts["first_absence"]  # the part before the stop was planned with another calendar
            if opts.get("first_auto_abs") is not None:
                fo["auto_abs"] = opts["first_auto_abs"]  # ... and with another value of the automatic-task flag
            first = sim_kwargs(fo)
            ex.m.project.simulate(**dict(first, max_time=opts["resume_from"]))
            if opts.get("pause_reconfigure"):
                for t_ in ex.m.tasks:  # sub-project tasks are configured again from their (unchanged) files at the stop
                    if hasattr(t_, "set_all_attributes_from_json") and getattr(t_, "file_path", None):
                        t_.set_all_attributes_from_json(remove_absence_time_list=False)
                        t_.set_work_amount_progress_of_unit_step_time(ex.m.project.unit_timedelta)
            if opts.get("pause_queries"):
                read_only_calls(ex.m.project)  # every read-only helper (queries, chart data, printing) is called once at the stop
            if opts.get("resume_via_json"):
                import os
                import tempfile

                fd, path = tempfile.mkstemp(prefix="verif-resume-", suffix=".json")
                os.close(fd)
                try:
                    ex.m.project.write_simple_json(path)
                    from pDESy.model.base_project import BaseProject

                    # "same": the checkpoint is read back into the very project object that wrote it (a roll-back); otherwise into a new one
                    p2 = ex.m.project if opts["resume_via_json"] == "same" else BaseProject()
                    p2.read_simple_json(path)
                    ex.m = S.adopt(p2)  # the run is continued in the loaded project
                finally:
                    os.unlink(path)
        for _ in range(int(opts.get("presim") or 0)):
            # earlier, unobserved runs on the same object (the observed run must not be influenced by them)
            pk = sim_kwargs(dict(opts, absence=opts.get("presim_absence", [])))
            if opts.get("presim_cut") is not None:
                pk["max_time"] = opts["presim_cut"]  # the earlier run was stopped by max_time (and the project is simply simulated again afterwards)
            ex.m.project.simulate(**pk)
        for _ in range(int(opts.get("presim_back") or 0)):
            ex.m.project.backward_simulate(max_time=opts.get("max_time", 200), absence_time_list=[], reverse_log_information=bool(opts.get("presim_back_rev", True)))  # an earlier backward run on the same object
        if opts.get("presim_queries"):
            # between the earlier run(s) and the observed one every read-only helper is called once with default arguments
            read_only_calls(ex.m.project)
        if opts.get("edit"):
            from . import edits

            edits.apply_edit(ex.m, opts["edit"])
    except Exception as e:
        ex.error = "presim: %s: %s" % (type(e).__name__, e)
        return ex
    bootstrap.set_observer(obs)
    try:
        if call is not None:
            call(ex.m.project)
        else:
            kw = sim_kwargs(opts)
            if opts.get("resume_from") is not None or opts.get("alloc_fault") is not None:
                fl = opts.get("restart_flags") or (False, False)
                kw.update(initialize_state_info=bool(fl[0]), initialize_log_info=bool(fl[1]))
                if fl[0] and not fl[1]:
                    ex.log_start = len(ex.m.project.cost_list)  # a new life cycle is appended to the kept logs
            elif opts.get("flags") is not None:
                kw.update(initialize_state_info=bool(opts["flags"][0]), initialize_log_info=bool(opts["flags"][1]))
            if opts.get("backward"):
                # the observed run is the inner run of backward_simulate (dependencies reversed while it runs)
                ex.m.project.backward_simulate(considering_due_time_of_tail_tasks=bool(opts.get("due")), reverse_log_information=bool(opts.get("rev", True)), **kw)
            else:
                ex.m.project.simulate(**kw)
    except Exception as e:
        ex.error = "%s: %s" % (type(e).__name__, e)
        tb = traceback.extract_tb(e.__traceback__)
        site = [f for f in tb if "/pDESy/" in f.filename]
        if site:
            callers = [f.name for f in site if f.name != site[-1].name]
            ex.error = "%s @ %s:%s<-%s" % (ex.error, site[-1].filename.split("/pDESy/")[-1], site[-1].name, callers[-1] if callers else "?")
        ex.error_tb = traceback.format_exc()
    finally:
        bootstrap.clear_observer()
        del S.PLACEMENT_LOG[:]
    if ex.error is None and (opts.get("post_insert") or opts.get("reload") or opts.get("post_remove") or opts.get("post_reverse")):
        try:
            if opts.get("post_remove") and opts.get("post_remove") != "after-insert":
                ex.m.project.remove_absence_time_list()
            if opts.get("post_insert"):
                ex.m.project.insert_absence_time_list(list(opts["post_insert"]))
            if opts.get("post_remove") == "after-insert":
                ex.m.project.remove_absence_time_list()  # (the stored list may by now name steps that were worked)
            for _ in range(int(opts.get("post_reverse") or 0)):
                ex.m.project.reverse_log_information()  # the public log reversal called by hand on the result
            if opts.get("reload"):
                import os
                import tempfile

                fd, path = tempfile.mkstemp(prefix="verif-reload-", suffix=".json")
                os.close(fd)
                try:
                    ex.m.project.write_simple_json(path)
                    from pDESy.model.base_project import BaseProject

                    p2 = BaseProject()
                    p2.read_simple_json(path)
                    ex.m = S.adopt(p2)  # the log-based monitors now look at the loaded project
                finally:
                    os.unlink(path)
        except Exception as e:
            ex.error = "post: %s: %s" % (type(e).__name__, e)
    return ex
