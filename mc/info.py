"""Static facts derived from a spec only (never by calling the library): the oracle side."""
EPS = 1e-10


class Info(object):
    def __init__(self, spec):
        self.spec = spec
        self.key = hash(repr(spec))
        self.tasks = {(ts.get("id") or ts["name"]): ts for ts in spec["tasks"]}
        self.tnames = [(ts.get("id") or ts["name"]) for ts in spec["tasks"]]  # task IDs (names may repeat)
        self.tname_of = {(ts.get("id") or ts["name"]): ts["name"] for ts in spec["tasks"]}
        self.preds = {n: [] for n in self.tnames}  # name -> [(pred name, kind)]
        self.succs = {n: [] for n in self.tnames}
        for i, j, k in spec.get("links", []):
            self.preds[self.tnames[j]].append((self.tnames[i], k))
            self.succs[self.tnames[i]].append((self.tnames[j], k))
        self.workers = {}
        self.worker_team = {}
        self.team_targets = {}
        self.team_workers = {}
        for tm in spec.get("teams", []):
            self.team_targets[tm["name"]] = set(self.tnames[i] for i in tm.get("targets", []))
            self.team_workers[tm["name"]] = [(w.get("id") or w["name"]) for w in tm.get("workers", [])]
            for w in tm.get("workers", []):
                self.workers[w.get("id") or w["name"]] = w
                self.worker_team[w.get("id") or w["name"]] = tm["name"]
        self.facilities = {}
        self.fac_wp = {}
        self.wp_targets = {}
        self.wp = {}
        self.wp_facilities = {}
        self.wp_inputs = {}
        wpn = [(wp.get("id") or wp["name"]) for wp in spec.get("workplaces", [])]  # workplace IDs (names may repeat)
        for wp in spec.get("workplaces", []):
            wid = wp.get("id") or wp["name"]
            self.wp[wid] = wp
            self.wp_targets[wid] = set(self.tnames[i] for i in wp.get("targets", []))
            self.wp_facilities[wid] = [(f.get("id") or f["name"]) for f in wp.get("facilities", [])]
            self.wp_inputs[wid] = [wpn[i] for i in wp.get("inputs", [])]
            for f in wp.get("facilities", []):
                self.facilities[f.get("id") or f["name"]] = f
                self.fac_wp[f.get("id") or f["name"]] = wid
        self.comps = {}
        self.task_comp = {}
        self.comp_tasks = {}
        self.comp_children = {}
        self.comp_parents = {}
        cn = [(c.get("id") or c["name"]) for c in spec.get("components", [])]  # component IDs
        for c in spec.get("components", []):
            cid = c.get("id") or c["name"]
            self.comps[cid] = c
            # the tasks a component LISTS decide its state ("also_lists": listed here although the task's own link points elsewhere)
            self.comp_tasks[cid] = [self.tnames[i] for i in list(c.get("tasks", [])) + list(c.get("also_lists", []))]
            self.comp_children[cid] = [cn[i] for i in c.get("children", [])]
            self.comp_parents.setdefault(cid, [])
            for i in c.get("tasks", []):
                if c.get("wire") != "ctor":  # wired through the constructor keyword the task does not point back: it has no component of its own
                    self.task_comp[self.tnames[i]] = cid
        for c in spec.get("components", []):
            for i in c.get("children", []):
                self.comp_parents.setdefault(cn[i], []).append(c.get("id") or c["name"])

    def reversed_view(self):
        """the same facts with every link read in the opposite direction (the inner run of backward_simulate)"""
        import copy

        r = copy.copy(self)
        r.preds, r.succs = self.succs, self.preds
        return r

    # ---- task facts
    def prefinished(self, tn):
        return (self.tasks[tn].get("progress") or 0.0) >= 1.0 - EPS

    def is_auto(self, tn):
        ts = self.tasks[tn]
        return bool(ts.get("auto")) or (ts.get("sub") is not None and ts["sub"].get("auto", True))

    def unit(self, tn):
        u = self.tasks[tn].get("unit")
        return 1.0 if u is None else u

    def needs_facility(self, tn):
        return bool(self.tasks[tn].get("nf"))

    # ---- eligibility (statement of C04), from the spec and the absence answers only
    def wskill(self, wn, tn):
        # skill maps are keyed by the task's *name*
        return self.workers[wn].get("skills", {}).get(self.tname_of[tn], 0.0)

    def fskill(self, fn, tn):
        return self.facilities[fn].get("skills", {}).get(self.tname_of[tn], 0.0)

    def worker_static_ok(self, wn, tn):
        """positive skill, team targets the task, fixed-ID list admits the worker."""
        if not self.wskill(wn, tn) > EPS:
            return "no positive skill"
        if tn not in self.team_targets[self.worker_team[wn]]:
            return "team does not target the task"
        fx = self.tasks[tn].get("fixw")
        if fx is not None and wn not in fx:
            return "not in fixed worker IDs"
        return None

    def facility_static_ok(self, fn, tn):
        if not self.fskill(fn, tn) > EPS:
            return "facility has no positive skill"
        if tn not in self.wp_targets[self.fac_wp[fn]]:
            return "workplace does not target the task"
        fx = self.tasks[tn].get("fixf")
        if fx is not None and fn not in fx:
            return "not in fixed facility IDs"
        return None

    def can_operate(self, wn, fn):
        # facility skills of a worker are keyed by the facility's *name*
        return self.workers[wn].get("fskills", {}).get(self.facilities[fn]["name"], 0.0) > EPS

    def is_solo(self, name):
        o = self.workers.get(name) or self.facilities.get(name)
        return bool(o.get("solo"))


def absent_at(opts, name, t):
    return t in (opts.get("res_absence") or {}).get(name, ())


def project_absent(opts, t):
    return t in (opts.get("absence") or ())
