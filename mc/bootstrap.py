"""Bind the harness to the pDESy sources under test and own process-level nondeterminism.

Every entry point imports this module first.  It
  * puts REPO (default /repo, override VERIF_REPO for scratch worktrees) in front of sys.path and
    asserts that the imported pDESy really comes from there (/venv has a stale non-editable copy);
  * switches the guarded step observer on (PDESY_VERIF=1) *before* pDESy is imported;
  * silences the library's warnings (Time Over etc. are expected in explored executions);
  * exposes helpers to install/remove the step observer and to check/reset the mutable defaults of
    simulate()/backward_simulate() that the library aliases into project state.
"""
import os
import sys
import warnings

REPO = os.environ.get("VERIF_REPO", "/repo")
os.environ["PDESY_VERIF"] = "1"
os.environ.setdefault("MPLBACKEND", "Agg")
if sys.path[0] != REPO:
    sys.path.insert(0, REPO)
warnings.filterwarnings("ignore")

import pDESy  # noqa: E402

_f = os.path.realpath(pDESy.__file__)
if not _f.startswith(os.path.realpath(REPO) + os.sep):
    sys.stderr.write("HARNESS ERROR: pDESy imported from %s, expected under %s\n" % (_f, REPO))
    sys.exit(2)

from pDESy.model import base_project as _bp  # noqa: E402

if not getattr(_bp, "_VERIF", False):
    sys.stderr.write("HARNESS ERROR: step-observer hook not active in %s\n" % _bp.__file__)
    sys.exit(2)


def set_observer(fn):
    _bp._verif_observer = fn


def clear_observer():
    _bp._verif_observer = None


def _defaults_of(fn):
    import inspect

    out = {}
    for k, p in inspect.signature(fn).parameters.items():
        if p.default is not inspect.Parameter.empty and isinstance(p.default, (list, dict, set)):
            out[k] = p.default
    return out


def mutable_defaults():
    """Current contents of the mutable default arguments of simulate/backward_simulate."""
    d = {}
    for name in ("simulate", "backward_simulate"):
        for k, v in _defaults_of(getattr(_bp.BaseProject, name)).items():
            d[name + "." + k] = list(v) if isinstance(v, (list, set)) else dict(v)
    return d


def reset_mutable_defaults():
    for name in ("simulate", "backward_simulate"):
        for k, v in _defaults_of(getattr(_bp.BaseProject, name)).items():
            v.clear()


# ---------------------------------------------------------------------------------------------
# Watchdog: a library call that does not return is an observation, not a reason for the check to
# hang.  The outermost call of each public entry point is run under an interval timer; on expiry a
# TimeoutError is raised inside the call, which every check reports like any other exception
# (C05: "simulate() always returns").  Harness-side wrapping only; /repo is not modified.
# ---------------------------------------------------------------------------------------------
import functools  # noqa: E402
import signal  # noqa: E402

CALL_LIMIT_S = float(os.environ.get("VERIF_CALL_LIMIT_S", "30"))
_depth = [0]
_timeouts = [0]


def _on_alarm(signum, frame):
    _timeouts[0] += 1
    raise TimeoutError("pDESy call did not return within %.0f s (non-termination)" % CALL_LIMIT_S)


def _limited(fn):
    @functools.wraps(fn)
    def wrapper(*a, **k):
        if _depth[0] > 0:
            return fn(*a, **k)
        _depth[0] += 1
        try:
            old = signal.signal(signal.SIGALRM, _on_alarm)
            # after two expiries in this process later calls get a short limit, after ten a very short one, so that a
            # change which makes many executions hang costs minutes, not hours (normal calls take milliseconds; on a
            # tree where no call hangs the limit stays at CALL_LIMIT_S, so a slow machine cannot cause an alarm)
            n = _timeouts[0]
            signal.setitimer(signal.ITIMER_REAL, CALL_LIMIT_S if n < 2 else min(CALL_LIMIT_S, 3.0 if n < 10 else 0.5))
        except ValueError:  # not in the main thread: no watchdog
            _depth[0] -= 1
            return fn(*a, **k)
        try:
            return fn(*a, **k)
        finally:
            signal.setitimer(signal.ITIMER_REAL, 0)
            signal.signal(signal.SIGALRM, old)
            _depth[0] -= 1

    wrapper._verif_limited = True
    return wrapper


def _install_watchdog():
    from pDESy.model.base_workflow import BaseWorkflow

    for cls, names in (
        (_bp.BaseProject, ("simulate", "backward_simulate", "initialize", "insert_absence_time_list", "remove_absence_time_list",
                           "write_simple_json", "read_simple_json", "reverse_log_information")),
        (BaseWorkflow, ("initialize", "update_PERT_data")),
    ):
        for nm in names:
            fn = cls.__dict__.get(nm)
            if fn is not None and not getattr(fn, "_verif_limited", False):
                setattr(cls, nm, _limited(fn))


_install_watchdog()
