"""Bind the harness to the pDESy sources under test and own process-level nondeterminism.

Every entry point imports this module first.  It
  * puts REPO (default /repo, override VERIF_REPO for scratch worktrees) in front of sys.path and
    asserts that the imported pDESy really comes from there (/venv has a stale non-editable copy);
  * switches the guarded step observer on (PDESY_VERIF=1) *before* pDESy is imported;
  * silences the library's warnings (Time Over etc. are expected in explored executions);
  * exposes helpers to install/remove the step observer and to check/reset the mutable defaults of
    simulate()/backward_simulate() that the library aliases into project state.
"""
import os
import sys
import warnings

REPO = os.environ.get("VERIF_REPO", "/repo")
os.environ["PDESY_VERIF"] = "1"
os.environ.setdefault("MPLBACKEND", "Agg")
if sys.path[0] != REPO:
    sys.path.insert(0, REPO)
warnings.filterwarnings("ignore")

import pDESy  # noqa: E402

_f = os.path.realpath(pDESy.__file__)
if not _f.startswith(os.path.realpath(REPO) + os.sep):
    sys.stderr.write("HARNESS ERROR: pDESy imported from %s, expected under %s\n" % (_f, REPO))
    sys.exit(2)

from pDESy.model import base_project as _bp  # noqa: E402

if not getattr(_bp, "_VERIF", False):
    sys.stderr.write("HARNESS ERROR: step-observer hook not active in %s\n" % _bp.__file__)
    sys.exit(2)


def set_observer(fn):
    _bp._verif_observer = fn


def clear_observer():
    _bp._verif_observer = None


def _defaults_of(fn):
    import inspect

    out = {}
    for k, p in inspect.signature(fn).parameters.items():
        if p.default is not inspect.Parameter.empty and isinstance(p.default, (list, dict, set)):
            out[k] = p.default
    return out


def mutable_defaults():
    """Current contents of the mutable default arguments of simulate/backward_simulate."""
    d = {}
    for name in ("simulate", "backward_simulate"):
        for k, v in _defaults_of(getattr(_bp.BaseProject, name)).items():
            d[name + "." + k] = list(v) if isinstance(v, (list, set)) else dict(v)
    return d


def reset_mutable_defaults():
    for name in ("simulate", "backward_simulate"):
        for k, v in _defaults_of(getattr(_bp.BaseProject, name)).items():
            v.clear()
