"""C08 - every log has one entry per simulated step, equal to that step's live state."""
import collections
import itertools
import json

from .. import bootstrap, engines, families as F, runner, spec as S
from ..info import Info

BIG = 40


def alphabet(tier):
    ops = []
    for ab in ((), (1,)):
        ops.append(("sim", BIG, True, True, ab))
        for k in (0, 1, 2):
            ops.append(("sim", k, True, True, ab))
        for a, b in ((False, False), (True, False), (False, True)):
            ops.append(("sim", BIG, a, b, ab))
            ops.append(("simrel", 2, a, b, ab))  # max_time = current time + 2
        for due, rev in itertools.product((False, True), repeat=2):
            ops.append(("back", due, rev, ab))
    for a, b in ((False, False), (True, False)):
        for k in (1, 2):
            ops.append(("sim", k, a, b, ()))  # logs kept, max_time possibly below the current time
    ops.append(("sim", BIG, True, True, tuple(range(1, 12))))  # eleven consecutive project-wide absence steps
    for ab in ((1, 4), (1, 5), (1, 6), (0, 7, 8)):  # calendars that reach the end of the run and beyond it (one of them names exactly the step after the last one)
        ops.append(("back", False, True, ab))
        ops.append(("sim", BIG, True, True, ab))
    ops.append(("simauto", (0, 2)))  # simulate(absence=[0,2], perform_auto_task_while_absence_time=True)
    ops.append(("simauto", (1,)))
    ops.append(("reload",))  # write_simple_json, read into a NEW project, go on there
    ops.append(("simreload", 1))  # simulate(max_time=1), then the same
    ops.append(("simreload", 2))
    ops.append(("insert", (1,)))  # insert_absence_time_list([1]) - names a step that is already registered when the run had absence [1]
    ops.append(("insert", (0, 2, 2)))
    ops.append(("remove",))
    ops.append(("init",))
    ops.append(("reverse",))
    ops.append(("queries",))  # every read-only helper (queries without filter, chart data builders, printing) called once: nothing may change
    ops.append(("simu", 2))  # simulate(unit_time=2): an option of simulate() like any other
    return ops


def base_models():
    full = lambda names: {nm: 1.0 for nm in names}  # noqa: E731
    out = []
    # FS chain
    out.append(F.with_teams({"tasks": [{"name": "T0", "work": 2.0, "due": 3}, {"name": "T1", "work": 1.0, "due": 5}, {"name": "T2", "work": 1.0}], "links": [[0, 1, "FS"], [1, 2, "FS"]]}, "POOL2"))
    # parallel with two tails of different due time
    out.append(F.with_teams({"tasks": [{"name": "T0", "work": 2.0, "due": 2}, {"name": "T1", "work": 1.0, "due": 6}, {"name": "T2", "work": 3.0, "due": 4}], "links": [[0, 1, "SS"]]}, "POOL1"))
    # automatic task
    sp = F.with_teams({"tasks": [{"name": "T0", "work": 2.0}, {"name": "T1", "work": 2.0, "auto": True}, {"name": "T2", "work": 1.0, "due": 4}], "links": [[0, 2, "FS"], [1, 2, "FF"]]}, "DED")
    out.append(sp)
    # facility + component (two workplaces, conveyor)
    for sp in F.fac_specs("quick"):
        if sp["label"] in ("fac:2:per-task:two-conveyor:two:both", "fac:2:shared:one-cap2:plain:both"):
            out.append(sp)
    # individually absent resources (a worker absent while holding a task and while idle; an absent facility)
    sp = F.with_teams({"tasks": [{"name": "T0", "work": 3.0}, {"name": "T1", "work": 1.0}], "links": [[0, 1, "FS"]]}, "POOL2")
    sp["teams"][0]["workers"][0]["absence"] = [1, 2]
    sp["teams"][0]["workers"][1]["absence"] = [0, 3]
    out.append(sp)
    for sp0 in F.fac_specs("quick"):
        if sp0["label"] == "fac:2:per-task:one-cap2:two:both":
            sp = dict(sp0, workplaces=[dict(wp, facilities=[dict(f) for f in wp["facilities"]]) for wp in sp0["workplaces"]])
            sp["workplaces"][0]["facilities"][0]["absence"] = [1]
            sp["workplaces"][0]["facilities"][1]["absence"] = [0, 2]
            out.append(sp)
    out.append(F.two_team_workplace_spec())
    out.append(F.float_noise_spec())
    sp = F.with_teams({"tasks": [{"name": "T0", "work": 2.0}, {"name": "T1", "work": 3.0}], "links": []}, "POOL2")
    sp["teams"][0]["workers"][1]["share_logs_with"] = "W0"  # a clone made with copy.copy shares its template's log lists
    out.append(sp)
    out.append(F.shared_child_spec())
    out.append(F.with_teams({"tasks": [{"name": "T0", "work": 2.0, "progress": 1.0}, {"name": "T1", "work": 2.0, "progress": 0.5}, {"name": "T2", "work": 1.0}], "links": [[0, 2, "FS"]]}, "POOL2"))  # done / half done
    out.append(F.idle_component_spec())  # component C0 carries the first and the last task of a chain: WORKING - idle - WORKING
    out.append(F.team_hierarchy_spec())
    out += [sp for sp in F.scale_specs() if sp["label"] in ("scale:layers3x4", "scale:8components")]  # 12 tasks in three teams; 8 components and 10 machines  # three nested teams / workplaces, one workplace without any facility
    # automatic task with a half-integer rate (remaining work crosses zero between steps) next to worked tasks
    sp = F.with_teams({"tasks": [{"name": "T0", "work": 2.5, "auto": True}, {"name": "T1", "work": 1.5}, {"name": "T2", "work": 1.0}], "links": [[0, 2, "FS"], [1, 2, "FS"]]}, "MIX")
    out.append(sp)
    # nested product, child first (FS) so that the run completes
    names = ["T0", "T1"]
    out.append({"tasks": [{"name": "T0", "work": 1.0, "nf": True}, {"name": "T1", "work": 2.0, "nf": True, "due": 5}], "links": [[0, 1, "FS"]],
                "components": [{"name": "C0", "tasks": [1], "children": [1]}, {"name": "C1", "tasks": [0]}],
                "workplaces": [{"name": "WP0", "cap": 2.0, "targets": [0, 1], "facilities": [{"name": "F0", "skills": full(names), "cost": 1.0}]}],
                "teams": [{"name": "TM0", "targets": [0, 1], "workers": [{"name": "W0", "skills": full(names), "fskills": {"F0": 1.0}, "cost": 2.0}]}]})
    out.append(dict(out[-1], product_wire="register-and-link"))  # the same product grown step by step: assembly registered, part hung under it, part registered
    return out


def live_vs_log_observer(bad, absn_holder):
    def extra(project, phase, working):
        if phase != "recorded":
            return
        t = project.time

        def chk(name, log, want, L=None):
            if not log or log[-1] != want:
                bad.append((t, name, (log[-1] if log else None), want))

        for x in project.workflow.task_list:
            st = int(x.state)
            disp = S.T_READY if (working is False and st == S.T_WORKING) else st
            chk("task %s state" % x.ID, [int(s) for s in x.state_record_list[-1:]], disp)
            chk("task %s remaining" % x.ID, x.remaining_work_amount_record_list[-1:], x.remaining_work_amount)
            chk("task %s workers" % x.ID, x.allocated_worker_id_record[-1:], [w.ID for w in x.allocated_worker_list])
            chk("task %s facilities" % x.ID, x.allocated_facility_id_record[-1:], [f.ID for f in x.allocated_facility_list])
        for c in project.product.component_list:
            st = int(c.state)
            disp = S.C_READY if (working is False and st == S.C_WORKING) else st
            chk("component %s state" % c.ID, [int(s) for s in c.state_record_list[-1:]], disp)
            chk("component %s placed" % c.ID, c.placed_workplace_id_record[-1:], None if c.placed_workplace is None else c.placed_workplace.ID)
        for team in project.organization.team_list:
            for w in team.worker_list:
                chk("worker %s state" % w.ID, [int(s) for s in w.state_record_list[-1:]], S.R_ABSENCE if working is False else int(w.state))
                chk("worker %s tasks" % w.ID, w.assigned_task_id_record[-1:], [x.ID for x in w.assigned_task_list])
        for wp in project.organization.workplace_list:
            chk("workplace %s placed" % wp.ID, wp.placed_component_id_record[-1:], [c.ID for c in wp.placed_component_list])
            for f in wp.facility_list:
                chk("facility %s state" % f.ID, [int(s) for s in f.state_record_list[-1:]], S.R_ABSENCE if working is False else int(f.state))
                chk("facility %s tasks" % f.ID, f.assigned_task_id_record[-1:], [x.ID for x in f.assigned_task_list])
        # index of the entry just written = the step number, for every log
        lens = set(S.log_lengths(S.adopt(project)).values())
        if absn_holder.get("aligned_before") and lens != {t + 1}:
            bad.append((t, "log lengths at recorded", sorted(lens), t + 1))

    return extra


def apply_op(m, op, bad):
    p = m.project
    kind = op[0]
    holder = {"aligned_before": len(set(S.log_lengths(m).values()) | {p.time}) == 1}
    bootstrap.set_observer(runner.make_observer(runner.Exec(None, {}), phases=(), extra=live_vs_log_observer(bad, holder)))
    try:
        if kind == "sim":
            _, mt, a, b, ab = op
            if a and b:
                holder["aligned_before"] = True
            elif not (a and b) and b:
                holder["aligned_before"] = True  # logs cleared, time reset
            p.simulate(max_time=mt, initialize_state_info=a, initialize_log_info=b, absence_time_list=list(ab))
        elif kind == "simrel":
            _, dt, a, b, ab = op
            if b:
                holder["aligned_before"] = True
            p.simulate(max_time=(0 if b else p.time) + dt, initialize_state_info=a, initialize_log_info=b, absence_time_list=list(ab))
        elif kind == "back":
            _, due, rev, ab = op
            holder["aligned_before"] = True
            p.backward_simulate(max_time=BIG, considering_due_time_of_tail_tasks=due, reverse_log_information=rev, absence_time_list=list(ab))
        elif kind == "simauto":
            holder["aligned_before"] = True
            p.simulate(max_time=BIG, absence_time_list=list(op[1]), perform_auto_task_while_absence_time=True)
        elif kind == "simu":
            holder["aligned_before"] = False  # the index-equals-step comparison is meaningless here; the alignment invariant after the call decides
            p.simulate(max_time=BIG, unit_time=op[1], absence_time_list=[])
        elif kind == "insert":
            p.insert_absence_time_list(list(op[1]))
        elif kind == "remove":
            p.remove_absence_time_list()
        elif kind == "init":
            p.initialize()
        elif kind == "reverse":
            p.reverse_log_information()
        elif kind == "queries":
            runner.read_only_calls(p)
    finally:
        bootstrap.clear_observer()


def check_alignment(m):
    L = S.log_lengths(m)
    lens = set(L.values())
    t = m.project.time
    if len(lens) != 1 or t not in lens:
        short = sorted(L.items(), key=lambda kv: kv[1])
        return {"time": t, "lengths": dict(collections.Counter(L.values())), "shortest": short[:2], "longest": short[-2:]}
    return None


def replay_history(spec, hist):
    """Replay a whole history on fresh objects; return (model, list of violations)."""
    m = S.build(spec)
    viol = []
    for k, op in enumerate(hist):
        bad = []
        if op[0] == "simreload":
            try:
                apply_op(m, ("sim", op[1], True, True, ()), bad)
            except Exception as e:
                viol.append(("C08:operation-raised:sim:%s" % type(e).__name__, {"op": op, "k": k, "error": repr(e)}))
                return m, viol, True
        if op[0] in ("reload", "simreload"):
            import os
            import tempfile
            from pDESy.model.base_project import BaseProject

            fd, path = tempfile.mkstemp(prefix="verif-c08-", suffix=".json")
            os.close(fd)
            try:
                m.project.write_simple_json(path)
                p2 = BaseProject()
                p2.read_simple_json(path)
                m = S.adopt(p2)
            except Exception as e:
                viol.append(("C08:operation-raised:reload:%s" % type(e).__name__, {"op": op, "k": k, "error": repr(e)}))
                return m, viol, True
            finally:
                os.unlink(path)
            al = check_alignment(m)
            if al is not None:
                viol.append(("C08:logs-not-aligned-after:reload", {"op": op, "k": k, "alignment": al}))
            continue
        before = S.dump(m, live=False) if op[0] == "reverse" else None
        time_before = m.project.time
        try:
            apply_op(m, op, bad)
        except Exception as e:
            viol.append(("C08:operation-raised:%s:%s" % (op[0], type(e).__name__), {"op": op, "k": k, "error": repr(e)}))
            return m, viol, True
        if before is not None:
            # reverse_log_information: entry k of every log becomes the former entry L-1-k, for every log alike
            after = S.dump(m, live=False)
            wrong = []
            for grp in ("tasks", "workers", "facilities", "components", "teams", "workplaces"):
                for oid, logs_ in before[grp].items():
                    for lname, lst in logs_.items():
                        if isinstance(lst, list) and after[grp][oid][lname] != lst[::-1]:
                            wrong.append("%s %s %s" % (grp, oid, lname))
            for lname in ("cost", "org_cost"):
                if after[lname] != before[lname][::-1]:
                    wrong.append("project " + lname)
            if wrong:
                kinds = sorted(set(w.split(" ")[0] + " " + w.split(" ")[-1] for w in wrong))
                viol.append(("C08:reverse_log_information-did-not-reverse:%s" % ",".join(kinds)[:90], {"op": op, "k": k, "not_reversed": wrong[:6]}))
        if op[0] == "back" and op[2]:
            # a backward run with reverse_log_information=True must give the reverse of the same run without it
            twin = S.build(spec)
            try:
                for o2 in hist[:k]:
                    apply_op(twin, o2, [])
                apply_op(twin, (op[0], op[1], False, op[3]), [])
                a, b = S.dump(m, live=False), S.dump(twin, live=False)
                wrong = []
                for grp in ("tasks", "workers", "facilities", "components", "teams", "workplaces"):
                    for oid, logs_ in a[grp].items():
                        for lname, lst in logs_.items():
                            if isinstance(lst, list) and lst != b[grp][oid][lname][::-1]:
                                wrong.append("%s %s %s" % (grp, oid, lname))
                if wrong:
                    kinds = sorted(set(w.split(" ")[0] + " " + w.split(" ")[-1] for w in wrong))
                    viol.append(("C08:backward-run-logs-not-reverse-of-unreversed-run:%s" % ",".join(kinds)[:90], {"op": op, "k": k, "differ": wrong[:6]}))
            except Exception:
                pass
        # a removal right after a complete run: exactly the absence steps that were simulated go (counted from the calendar as it was handed to that run)
        if op[0] == "remove" and k > 0 and (hist[k - 1][0] == "back" or (hist[k - 1][0] == "sim" and hist[k - 1][1] == BIG and hist[k - 1][2] and hist[k - 1][3])) and time_before is not None:
            ab_ = hist[k - 1][3] if hist[k - 1][0] == "back" else hist[k - 1][4]
            want_t = time_before - len(set(a_ for a_ in ab_ if 0 <= a_ < time_before))
            if m.project.time != want_t:
                viol.append(("C08:remove-after-a-complete-run-deleted-another-number-of-steps-than-absence-steps-were-simulated", {"op": op, "k": k, "calendar": list(ab_), "steps_before": time_before, "time_after": m.project.time, "expected": want_t}))
        al = check_alignment(m)
        if al is not None:
            viol.append(("C08:logs-not-aligned-after:%s" % (op[0] if op[0] != "simu" else "simulate(unit_time=%d)" % op[1]), {"op": op, "k": k, "alignment": al}))
        if bad:
            names = sorted(set(b[1].split(" ")[0] + " " + b[1].split(" ")[-1] for b in bad))
            viol.append(("C08:log-entry-differs-from-live-state:%s" % ",".join(names)[:80], {"op": op, "k": k, "first": bad[:4]}))
    return m, viol, False


def work(chunk):
    col = engines.Collector()
    for spec, depth, ops, first in chunk:
        aliased = any(w.get("share_logs_with") for tm in spec.get("teams", []) for w in tm.get("workers", []))
        if first[0][0] in ("insert", "remove", "reload") or any(t.get("sub") for t in spec["tasks"]):
            pass
        if first[0][0] in ("insert", "remove", "reload") or (first[0][0] == "simreload" and any(t.get("sub") for t in spec["tasks"])):
            continue  # absence edits are applied to results (C18 explores them on their own); here they follow a run
        if aliased and not (first[0][0] in ("sim", "simauto", "back", "simu", "init") and (first[0][0] != "sim" or first[0][3])):
            # two workers that share their log list objects are un-shared by the first log-initialising call; a history that
            # never initialises the logs keeps writing both workers into one list - that is the model's aliasing, not a defect
            continue
        key = hash(repr(spec))
        seen = set()
        frontier = collections.deque([first])
        while frontier:
            hist = frontier.popleft()
            m, viol, dead = replay_history(spec, hist)
            col.evaluations += 1
            col.transitions.add(hash((key, hist)))
            col.checks["c08.history"] += 1
            # only violations caused by the last operation are new
            for sig, det in viol:
                if det["k"] == len(hist) - 1:
                    col.violation({"property": "C08", "sig": sig, "kind": "hist", "spec": spec, "hist": [list(o) for o in hist], "detail": det})
            if dead or viol:
                continue  # a violating history is reported once and not extended
            c = json.dumps(S.dump(m), sort_keys=True, default=str)
            hc = hash(c)
            if hc in seen:
                continue
            seen.add(hc)
            col.states.add(hash((key, hc)))
            if m.project.time > 0:
                col.nontrivial.add(hash((key, hc)))
            col.outcomes[(m.project.time, int(m.project.status), int(m.project.simulation_mode))] += 1
            if len(hist) < depth:
                for op in ops:
                    frontier.append(hist + (op,))
        if len(col.samples) < 2:
            col.samples.append({"spec": spec, "example_history": [list(o) for o in ops[:3]]})
    return col


def run(tier, seed):
    ops = alphabet(tier)
    depth = 2 if tier == "quick" else 3
    items = []
    subm = {"tasks": [{"name": "T0", "work": 2.0}, {"name": "S1", "work": 3.0, "sub": {}}, {"name": "T2", "work": 1.0}], "links": [[0, 1, "FS"], [1, 2, "FS"]],
            "teams": [{"name": "TM0", "targets": [0, 2], "workers": [{"name": "W0", "skills": {"T0": 1.0, "T2": 1.0}, "cost": 1.0}]}]}  # a sub-project task (not configured from a file) between two worked tasks
    # (of the nested models only those whose backward run does not end in the known nested-placement crash of section 8.2)
    nested = [x for x in F.nested_running_specs() if "hull-leaves" in x["label"] or "auto-part" in x["label"]]
    for sp in base_models() + [subm] + nested[:: (2 if tier == "quick" else 1)]:
        # split the first operation across work items for parallelism: handled by BFS inside; one item per model
        for op in ops:
            items.append((sp, depth, ops, (op,)))
    # parallelism: one work item per (model, first op) would duplicate the root; instead fan out per model with chunks of 1
    col = engines.fanout(items, work, seed=seed, chunks_per_proc=4)
    meta = {
        "level": "model_checking",
        "rule": "breadth-first search over operation histories up to depth %d on real projects (base models: two teams + workplace, nested teams/workplaces with a facility-less workplace, fractional automatic task, FS chain, parallel with due times, automatic task, individually absent workers / facilities, facility+conveyor, "
        "shared component, nested product) over the alphabet simulate(full | max_time 0,1,2 | resume with each flag pair, absolute and relative max_time) x absence {[],[1]}, "
        "backward_simulate x due-time flag x reverse flag x absence, initialize(), reverse_log_information(); every history is replayed on fresh objects, states are de-duplicated on "
        "the complete dump; after every operation all per-step logs must have one common length equal to project.time, and at every 'recorded' phase of every inner simulate the "
        "last entry of each log must equal the live attribute (display rules for absence); non-trivial = distinct reached states with time > 0" % depth,
        "bounds": {"depth": depth, "alphabet": len(ops), "base_models": len(base_models())},
        "assumptions": ["cost logs have no live counterpart; only their length is compared here (values: C07)"],
    }
    return col, meta


def replay(v):
    m, viol, dead = replay_history(v["spec"], [tuple(tuple(x) if isinstance(x, list) else x for x in o) for o in v["hist"]])
    return [{"sig": s, "detail": d} for s, d in viol]
