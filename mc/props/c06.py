"""C06 - no avoidable waiting."""
from .. import families as F, monitors as M, stepcheck

MONS = [M.mon_c06]


def items(tier):
    out = []
    if tier == "quick":
        flows = list(F.flows(3, F.KINDS4, (1, 2)))
        lays = ("POOL1", "POOL2", "SOLO")
        rules = ("TSLACK", "LPT", "FIFO")
    else:
        flows = list(F.flows(3, F.KINDS4, (1, 2, 3)))
        lays = ("POOL1", "POOL2", "SOLO", "MIX", "DED", "TWOTEAM")
        rules = F.ALL_TASK_RULES
    par4 = [{"tasks": [{"name": F.tname(i), "work": float(w)} for i, w in enumerate(wv)], "links": []} for wv in ((1, 2, 3, 1), (2, 2, 1, 1))]
    for fl in flows + par4:
        for lay in lays:
            sp = F.with_teams(fl, lay)
            for rule in (rules if lay in ("POOL1", "POOL2", "SOLO") else ("TSLACK",)):
                out.append((sp, {"rule": rule, "max_time": F.seq_bound(sp) + 8}))
    # fixed worker lists and automatic tasks (with and without component)
    for fl in list(F.flows(3, ("FS", "SS"), (2,))):
        for var in range(4):
            sp = F.with_teams(fl, "POOL2")
            sp = dict(sp, tasks=[dict(t) for t in sp["tasks"]])
            if var == 0:
                sp["tasks"][0]["fixw"] = ["W1"]
            elif var == 1:
                sp["tasks"][1]["fixw"] = []
                sp["tasks"][2]["auto"] = True
            elif var == 2:
                sp["tasks"][0]["auto"] = True
                sp["tasks"][1]["auto"] = True
                sp["components"] = [{"name": "C0", "tasks": [1]}]
            elif var == 3:
                sp["tasks"][1]["auto"] = True
                sp["tasks"][1]["progress"] = 0.5
            for aa in (False, True):
                out.append((sp, {"rule": "TSLACK", "auto_abs": aa, "max_time": F.seq_bound(sp) + 8}))
    # FF/SF chains listed against the dependency direction, all reaching zero together
    for wv in ((1, 1, 1), (3, 2, 1), (2, 2, 2)):
        for kinds in (("FF", "FF"), ("FF", "SF"), ("SF", "FF")):
            fl = {"tasks": [{"name": F.tname(i), "work": float(w)} for i, w in enumerate(wv)], "links": [[0, 1, kinds[0]], [1, 2, kinds[1]]]}
            for order in ([0, 1, 2], [2, 1, 0], [1, 2, 0]):
                sp = dict(F.with_teams(fl, "DED"), order=order)
                out.append((sp, {"rule": "TSLACK", "max_time": F.seq_bound(sp) + 8}))
    fl4 = {"tasks": [{"name": F.tname(i), "work": float(4 - i)} for i in range(4)], "links": [[0, 1, "FF"], [1, 2, "FF"], [2, 3, "FF"]]}
    for order in ([0, 1, 2, 3], [3, 2, 1, 0]):
        sp = dict(F.with_teams(fl4, "DED"), order=order)
        out.append((sp, {"rule": "TSLACK", "max_time": F.seq_bound(sp) + 8}))
    # teams wired through the constructor keyword only
    for fl in list(F.flows(3, ("FS", "SS"), (1, 2)))[:: (5 if tier == "quick" else 1)]:
        sp = F.with_teams(fl, "POOL2")
        sp = dict(sp, teams=[dict(tm, wire="ctor") for tm in sp["teams"]])
        out.append((sp, {"rule": "TSLACK", "max_time": F.seq_bound(sp) + 8}))
    for sp in F.auto_component_specs() + F.auto_in_workplace_specs() + F.double_link_specs() + F.float_residue_specs() + F.auto_placement_specs() + F.nested_running_specs() + F.ff_chain_specs() + F.id_namespace_specs() + F.waves_specs() + F.stationed_worker_specs():
        out.append((sp, {"rule": "TSLACK", "max_time": F.seq_bound(sp) + 10}))
    for sp in F.fac_specs(tier, only_single_task_components=True):
        out.append((sp, {"rule": "TSLACK", "max_time": F.seq_bound(sp) + 8}))
    return out


def run(tier, seed):
    H, D = (4, 1) if tier == "quick" else (4, 2)
    its = items(tier)
    col = stepcheck.explore(its, MONS, H, D, who_fn=lambda sp: stepcheck.default_who(sp, project=True), seed=seed)
    col.merge(stepcheck.explore(stepcheck.edited_items(), MONS, 0, 0, seed=seed))  # runs after an earlier run and an in-place model edit
    # the error_tol keyword of simulate() set to 0 (dyadic amounts reach exactly 0), large amounts, a team given a task while the run is stopped
    extra = [(sp, dict(o, error_tol=0.0)) for sp, o in its[:: (11 if tier == "quick" else 3)]]
    extra += [(sp, {"rule": "TSLACK", "max_time": 20}) for sp in F.large_amount_specs() + F.mixed_wiring_specs()]
    extra += stepcheck.resumed_edit_items(("team-add-target",), ks=(1, 2, 3, 4, 5))
    extra += stepcheck.resumed_edit_items(("move-facility-in",), ks=(1, 2, 3))  # the first suitable machine delivered to the workplace while the run is stopped
    for s0, s1 in ((1.0, 0.0), (0.0, 1.0), (0.0, 0.0), (0.5, 0.5)):
        zs = {"tasks": [{"name": "T0", "work": 3.0, "nf": True}, {"name": "T1", "work": 2.0, "nf": True}], "links": [],
              "components": [{"name": "C0", "tasks": [0], "space": s0}, {"name": "C1", "tasks": [1], "space": s1}],
              "workplaces": [{"name": "WP0", "cap": 1.0, "targets": [0, 1], "facilities": [{"name": "F0", "skills": {"T0": 1.0}}, {"name": "F1", "skills": {"T1": 1.0}}]}],
              "teams": [{"name": "TM0", "targets": [0, 1], "workers": [{"name": "W0", "skills": {"T0": 1.0}, "fskills": {"F0": 1.0}}, {"name": "W1", "skills": {"T1": 1.0}, "fskills": {"F1": 1.0}}]}]}  # one crew and one machine per task
        extra.append((zs, {"rule": "TSLACK", "max_time": 14}))
    for fl in list(F.flows(3, F.KINDS4, (1, 2)))[:: (9 if tier == "quick" else 2)]:
        if fl["links"]:
            for api in ("int", "extend", "extend-gen"):
                sp = dict(F.with_teams(fl, "DED"), link_api=api)
                extra.append((sp, {"rule": "TSLACK", "max_time": F.seq_bound(sp) + 8}))
    # a checkpoint written at step k and read back, into a new project and into the very object that wrote it, before the run goes on
    extra += [(sp, dict(o, resume_from=k, resume_via_json=how)) for sp, o in its[:: (17 if tier == "quick" else 5)] for k in (1, 2) for how in (True, "same")]
    col.merge(stepcheck.explore(extra, MONS, 0, 0, seed=seed))
    col.merge(stepcheck.explore(F.scale_items(("TSLACK", "LPT", "FIFO")), MONS, 0, 0, seed=seed))  # medium-sized models (10-14 tasks / workers / machines), long absence lists
    col.merge(stepcheck.explore(F.extra_items(("TSLACK", "LPT", "FIFO"), calendars=True), MONS, 0, 0, seed=seed))  # other ways of building the object graph; continuations under a revised calendar
    meta = {
        "level": "model_checking",
        "rule": "every 3-task workflow over the four dependency kinds x work vectors and 4 parallel tasks x pooled/solo/mixed/dedicated/two-team layouts x task rules, "
        "fixed-ID and automatic-task variants, float-residue and 5e8-sized amounts, error_tol=0, mixed team wiring, a team given a task at a stop, and the single-task-component slice of the FAC family, each explored over all absence answers up to horizon H "
        "with <= D non-default answers; non-trivial = distinct allocation states with at least one non-automatic READY/WORKING claimant",
        "bounds": {"H": H, "D": D, "base_models": len(its)},
        "assumptions": [
            "idle-worker clause asks for maximality of the greedy allocation only (not a maximum matching)",
            "next-step-finish and leave-NONE clauses are judged on the state right after the step's update (predecessors finishing in the same update count)",
        ],
    }
    if col.checks["c06.idle-worker"] == 0 or col.checks["c06.none"] == 0:
        meta["vacuous"] = "idle-worker or NONE clause never evaluated"
    return col, meta


def replay(v):
    return stepcheck.replay(v, MONS)
