"""C16 - saving to JSON and loading restores everything that was saved, at any stage."""
import datetime
import enum
import inspect
import json
import os
import shutil
import tempfile

from .. import bootstrap, engines, families as F, runner, spec as S  # noqa: F401
from .c09 import _num, first_diff, jdump
from .c15 import uses_only_saved_settings
from . import c08
from pDESy.model.base_component import BaseComponent, BaseComponentState
from pDESy.model.base_facility import BaseFacility, BaseFacilityState
from pDESy.model.base_organization import BaseOrganization
from pDESy.model.base_priority_rule import ResourcePriorityRuleMode, WorkplacePriorityRuleMode
from pDESy.model.base_product import BaseProduct
from pDESy.model.base_project import BaseProject, BaseProjectStatus, SimulationMode
from pDESy.model.base_subproject_task import BaseSubProjectTask
from pDESy.model.base_task import BaseTask, BaseTaskState
from pDESy.model.base_team import BaseTeam
from pDESy.model.base_worker import BaseWorker, BaseWorkerState
from pDESy.model.base_workflow import BaseWorkflow
from pDESy.model.base_workplace import BaseWorkplace


# ----------------------------------------------------------------------------- round trips
def jdump_full(m):
    return json.dumps(_num(S.dump(m)), sort_keys=True, default=str)


ENC = [None]  # the encoding the files of the current round trip are written and read with (None: the library's default)


def _kw():
    return {"encoding": ENC[0]} if ENC[0] else {}


def load(path):
    p = BaseProject()
    p.read_simple_json(path, **_kw())
    return p


def _jload(path):
    with open(path, encoding=ENC[0] or "utf-8") as f:
        return json.load(f)


def check_references(p):
    """every cross reference of the loaded project is an object of the loaded project"""
    bad = []
    tasks = list(p.workflow.task_list)
    comps = list(p.product.component_list)
    teams = list(p.organization.team_list)
    wps = list(p.organization.workplace_list)
    workers = [w for t in teams for w in t.worker_list]
    facs = [f for w in wps for f in w.facility_list]

    def inside(x, pool):
        return any(x is y for y in pool)

    def chk(owner, attr, values, pool):
        for v in values:
            if not inside(v, pool):
                bad.append((type(owner).__name__, attr, type(v).__name__))

    for t in tasks:
        chk(t, "input_task_list", [x for x, d in t.input_task_list], tasks)
        chk(t, "output_task_list", [x for x, d in t.output_task_list], tasks)
        chk(t, "allocated_team_list", t.allocated_team_list, teams)
        chk(t, "allocated_workplace_list", t.allocated_workplace_list, wps)
        chk(t, "allocated_worker_list", t.allocated_worker_list, workers)
        chk(t, "allocated_facility_list", t.allocated_facility_list, facs)
        if t.target_component is not None:
            chk(t, "target_component", [t.target_component], comps)
        for x, d in list(t.input_task_list) + list(t.output_task_list):
            if not isinstance(d, enum.IntEnum):
                bad.append(("BaseTask", "dependency-kind-not-enum", type(d).__name__))
    for c in comps:
        chk(c, "parent_component_list", c.parent_component_list, comps)
        chk(c, "child_component_list", c.child_component_list, comps)
        chk(c, "targeted_task_list", c.targeted_task_list, tasks)
        if c.placed_workplace is not None:
            chk(c, "placed_workplace", [c.placed_workplace], wps)
    for tm in teams:
        chk(tm, "targeted_task_list", tm.targeted_task_list, tasks)
        if tm.parent_team is not None:
            chk(tm, "parent_team", [tm.parent_team], teams)
        for w in tm.worker_list:
            chk(w, "assigned_task_list", w.assigned_task_list, tasks)
    for wp in wps:
        chk(wp, "targeted_task_list", wp.targeted_task_list, tasks)
        chk(wp, "placed_component_list", wp.placed_component_list, comps)
        chk(wp, "input_workplace_list", wp.input_workplace_list, wps)
        chk(wp, "output_workplace_list", wp.output_workplace_list, wps)
        if wp.parent_workplace is not None:
            chk(wp, "parent_workplace", [wp.parent_workplace], wps)
        for f in wp.facility_list:
            chk(f, "assigned_task_list", f.assigned_task_list, tasks)
    # symmetric links
    for t in tasks:
        for x, d in t.input_task_list:
            if not any(y is t and dd == d for y, dd in x.output_task_list):
                bad.append(("BaseTask", "input/output lists not symmetric", t.ID))
    return bad


def stage_ops(spec, opts):
    """(stage name, callable(project)) for every stage of the life cycle at which the project is saved"""
    kw = runner.sim_kwargs(opts)
    m0 = runner.prepare(spec, opts)
    try:
        m0.project.simulate(**kw)
        mk = m0.project.time
    except Exception:
        mk = 2
    stages = [("never-simulated", lambda p: None), ("initialized", lambda p: p.initialize())]
    for k in range(0, mk + 1):
        stages.append(("paused@%d" % k, lambda p, k=k: p.simulate(**dict(kw, max_time=k))))
    stages.append(("finished-forward", lambda p: p.simulate(**kw)))
    for rev in (True, False):
        stages.append(("finished-backward(rev=%s)" % rev, lambda p, rev=rev: p.backward_simulate(**dict(kw, reverse_log_information=rev))))

    for rev in (True, False):
        stages.append(("finished-backward(due-times,rev=%s)" % rev, lambda p, rev=rev: p.backward_simulate(**dict(kw, reverse_log_information=rev, considering_due_time_of_tail_tasks=True))))

    def edited(p, lst, remove_first=False):
        p.simulate(**dict(kw, absence_time_list=[0, 1] if remove_first else list(kw.get("absence_time_list", []))))
        if remove_first:
            p.remove_absence_time_list()
        p.insert_absence_time_list(lst)

    stages.append(("finished+inserted[0,1]", lambda p: edited(p, [0, 1])))
    stages.append(("finished+inserted[2]", lambda p: edited(p, [2])))
    stages.append(("finished(abs)+removed+inserted[0,1]", lambda p: edited(p, [0, 1], True)))
    return stages


def round_trip(spec, opts, stage_name, op, tmpdir, col, label):
    out = []
    ENC[0] = spec.get("file_encoding")
    m = runner.prepare(spec, opts)
    setup_subprojects(m, spec)
    try:
        op(m.project)
    except Exception as e:
        col.aborted["%s while reaching stage" % type(e).__name__] += 1
        return out
    f1 = os.path.join(tmpdir, "a%d.json" % os.getpid())
    f2 = os.path.join(tmpdir, "b%d.json" % os.getpid())
    stage_kind = stage_name.split("@")[0]
    try:
        m.project.write_simple_json(f1, **_kw())
    except Exception as e:
        import traceback

        tb = traceback.extract_tb(e.__traceback__)
        site = [f for f in tb if "/pDESy/" in f.filename]
        where = "%s:%s" % (site[-1].filename.split("/pDESy/")[-1], site[-1].name) if site else "?"
        out.append(("C16:write-raised:%s@%s" % (type(e).__name__, where), {"stage": stage_name, "error": repr(e)}))
        return out
    try:
        p2 = load(f1)
    except Exception as e:
        import traceback

        tb = traceback.extract_tb(e.__traceback__)
        site = [f for f in tb if "/pDESy/" in f.filename]
        where = "%s:%s" % (site[-1].filename.split("/pDESy/")[-1], site[-1].name) if site else "?"
        out.append(("C16:read-raised:%s@%s" % (type(e).__name__, where), {"stage": stage_name, "error": repr(e)}))
        return out
    try:
        p2.write_simple_json(f2, **_kw())
    except Exception as e:
        out.append(("C16:write-after-read-raised:%s" % type(e).__name__, {"stage": stage_name, "error": repr(e)}))
        return out
    j1 = _num(_jload(f1))
    j2 = _num(_jload(f2))
    col.checks["c16.roundtrip"] += 1
    if j1 != j2:
        d = first_diff(json.dumps(j1, sort_keys=True), json.dumps(j2, sort_keys=True))
        leaf = [x for x in d[0] if isinstance(x, str)][-1] if d else "?"
        out.append(("C16:export-of-loaded-project-differs-from-file:%s" % leaf, {"stage": stage_name, "first_difference(path, file, re-export)": d}))
    # everything observable of the loaded project equals the original (all logs, live state, placements, allocations)
    da, db = jdump_full(m), jdump_full(S.adopt(p2))
    col.checks["c16.state-equal"] += 1
    if da != db:
        d = first_diff(da, db)
        leaf = [x for x in d[0] if isinstance(x, str)][-1] if d else "?"
        out.append(("C16:loaded-project-state-differs-from-original:%s" % leaf, {"stage": stage_name, "first_difference(path, original, loaded)": d}))
    bad = check_references(p2)
    col.checks["c16.references"] += 1
    if bad:
        kinds = sorted(set("%s.%s" % (a, b) for a, b, c in bad))
        out.append(("C16:unresolved-cross-reference:%s" % ",".join(kinds)[:100], {"stage": stage_name, "bad": bad[:6]}))
    # a paused project continues to the same result in the original and in the loaded project, under rules that read other parts of the model
    if uses_only_saved_settings(spec) and not bad and stage_kind == "paused":
        for rule in ("TSLACK", "LWRPT", "FIFO"):
            kwc = dict(runner.sim_kwargs(dict(opts, rule=rule)), initialize_state_info=False, initialize_log_info=False)
            try:
                m3 = runner.prepare(spec, opts)
                setup_subprojects(m3, spec)
                op(m3.project)
                p3 = load(f1)
                col.checks["c16.continue"] += 1
                try:
                    m3.project.simulate(**kwc)
                except Exception:
                    continue  # the original itself cannot be continued under this rule: no claim about the copy
                p3.simulate(**kwc)
                a, b = jdump(m3), jdump(S.adopt(p3))
                if a != b:
                    d = first_diff(a, b)
                    out.append(("C16:continued-run-of-loaded-project-differs:%s" % (d[0][0] if d else "?"), {"stage": stage_name, "rule": rule, "first_difference(path, original, loaded)": d}))
            except Exception as e:
                out.append(("C16:continuing-the-loaded-project-raised:%s" % type(e).__name__, {"stage": stage_name, "rule": rule, "error": repr(e)}))
    # the file is read once more after the copies above were continued: a later reader of the same, unchanged file sees what the file says
    if stage_kind == "paused" and not bad:
        try:
            p4 = load(f1)
            p4.write_simple_json(f2, **_kw())
            j4 = _num(_jload(f2))
            col.checks["c16.second-reader"] += 1
            if j4 != j1:
                d = first_diff(json.dumps(j1, sort_keys=True), json.dumps(j4, sort_keys=True))
                out.append(("C16:later-reader-of-the-same-file-sees-something-else", {"stage": stage_name, "file_bytes": os.path.getsize(f1), "first_difference(path, file, re-export of the later reader)": d}))
        except Exception as e:
            out.append(("C16:later-read-of-the-same-file-raised:%s" % type(e).__name__, {"stage": stage_name, "error": repr(e)}))
    # re-simulation
    if uses_only_saved_settings(spec) and not bad:
        kw = runner.sim_kwargs(opts)
        try:
            m.project.simulate(**kw)
            p2.simulate(**kw)
            a, b = jdump(m), jdump(S.adopt(p2))
            col.checks["c16.resimulate"] += 1
            if a != b:
                d = first_diff(a, b)
                out.append(("C16:re-simulation-of-loaded-project-differs:%s" % (d[0][0] if d else "?"), {"stage": stage_name, "first_difference(path, original, loaded)": d}))
        except Exception as e:
            out.append(("C16:re-simulation-raised:%s" % type(e).__name__, {"stage": stage_name, "error": repr(e)}))
    return out


def setup_subprojects(m, spec):
    for t in m.tasks:
        if isinstance(t, BaseSubProjectTask) and t.file_path and spec.get("subproject_setup"):
            t.set_all_attributes_from_json(remove_absence_time_list=False)
            if spec.get("subproject_setup") != "attributes-only":  # (attributes-only: duration and unit read from the file, the rate left as declared: 1.0 per parent step)
                t.set_work_amount_progress_of_unit_step_time(m.project.unit_timedelta)
            if spec.get("sub_file_now"):
                # the sub-project was revised after this task had been configured: the file at its path now holds another (longer) result
                t.file_path = spec["sub_file_now"]


def models(tier, tmpdir):
    out = []
    for sp in c08.base_models():
        out.append((sp, {"rule": "TSLACK", "max_time": F.seq_bound(sp) + 8}, "base"))
    # numeric edge values: zero work, int amounts, progress 0/1, zero cost, empty lists, lst/lft exactly 0.0 (all-zero remaining)
    edge = F.with_teams({"tasks": [{"name": "T0", "work": 0}, {"name": "T1", "work": 1, "progress": 1.0}, {"name": "T2", "work": 2, "progress": 0.0, "fixw": []}], "links": [[0, 1, "FS"]]}, "POOL2")
    out.append((edge, {"rule": "TSLACK", "max_time": 12}, "edge"))
    zero = F.with_teams({"tasks": [{"name": "T0", "work": 0.0}, {"name": "T1", "work": 0.0}], "links": [[0, 1, "FS"]]}, "POOL1")
    out.append((zero, {"rule": "TSLACK", "max_time": 6}, "zero-work"))
    empty = {"tasks": [{"name": "T0", "work": 1.0, "auto": True}], "links": [], "teams": [{"name": "TM0", "targets": [], "workers": []}], "workplaces": [{"name": "WP0", "cap": 1.0, "targets": [], "facilities": []}],
             "components": [{"name": "C0", "tasks": []}]}
    out.append((empty, {"rule": "TSLACK", "max_time": 6}, "empty-lists"))
    flows = list(F.flows(3, F.KINDS4, (1, 2)))
    for fl in flows[:: (25 if tier == "quick" else 5)]:
        sp = F.with_teams(fl, "POOL2")
        out.append((sp, {"rule": "TSLACK", "max_time": F.seq_bound(sp) + 8, "absence": [1]}, "flow"))
    for sp in list(F.fac_specs("quick"))[:: (40 if tier == "quick" else 8)]:
        out.append((sp, {"rule": "TSLACK", "max_time": F.seq_bound(sp) + 8}, "fac"))
    for sp in F.rule_sensitive_specs():
        out.append((sp, {"rule": "TSLACK", "max_time": F.seq_bound(sp) + 8}, "rules"))
    # conveyor links declared on the downstream workplace only (constructor keyword), a team wired by keyword, same-named objects
    for sp0 in F.fac_specs("quick"):
        if sp0["label"] in ("fac:2:per-task:two-conveyor:plain:both",):
            sp = dict(sp0, workplaces=[dict(wp, wire_inputs="one-sided") for wp in sp0["workplaces"]], teams=[dict(tm, wire="ctor") for tm in sp0["teams"]])
            out.append((sp, {"rule": "TSLACK", "max_time": F.seq_bound(sp) + 8}, "one-sided-wiring"))
            sp = dict(sp0, workplaces=[dict(wp, wire_inputs="one-sided-out") for wp in sp0["workplaces"]])
            out.append((sp, {"rule": "TSLACK", "max_time": F.seq_bound(sp) + 8}, "links-declared-on-the-sending-side-only"))
    # names in other scripts, the file written and read with the encoding the user's other tools expect
    for enc in (None, "ascii", "cp932", "latin-1", "utf-16"):
        nm = {"T0": "溶接 A", "T1": "Prüfung №2", "T2": "塗装"}
        sp = {"tasks": [{"name": nm["T0"], "work": 2.0, "nf": True}, {"name": nm["T1"], "work": 1.0}, {"name": nm["T2"], "work": 1.0}], "links": [[0, 1, "FS"], [1, 2, "FS"]],
              "components": [{"name": "船体", "tasks": [0, 1, 2]}],
              "workplaces": [{"name": "工場", "cap": 1.0, "targets": [0], "facilities": [{"name": "Fräse", "skills": {nm["T0"]: 1.0}, "cost": 1.0}]}],
              "teams": [{"name": "チーム", "targets": [0, 1, 2], "workers": [{"name": "Żaneta", "skills": {v: 1.0 for v in nm.values()}, "fskills": {"Fräse": 1.0}, "cost": 1.0}]}]}
        if enc:
            sp["file_encoding"] = enc
        out.append((sp, {"rule": "TSLACK", "max_time": 12}, "names-in-other-scripts:%s" % (enc or "default")))
    out.append((F.shared_child_spec(), {"rule": "TSLACK", "max_time": 20}, "shared-child"))
    out.append((F.team_hierarchy_spec(), {"rule": "TSLACK", "max_time": 12}, "hierarchy"))
    out.append((F.idle_component_spec(), {"rule": "TSLACK", "max_time": 14}, "idle-component"))
    for sp0 in F.fac_specs("quick"):
        if sp0["label"] == "fac:2:per-task:one-cap2:plain:both":
            sp = dict(sp0, workplaces=[dict(wp, cap="inf") for wp in sp0["workplaces"]])  # a workplace without space limit
            out.append((sp, {"rule": "TSLACK", "max_time": 12}, "infinite-capacity"))
    out.append((F.shared_id_spec(), {"rule": "TSLACK", "max_time": 12}, "worker-and-facility-ids-coincide"))
    tz = dict(F.with_teams({"tasks": [{"name": "T0", "work": 2.0}, {"name": "T1", "work": 1.0}], "links": [[0, 1, "FS"]]}, "POOL1"), init_tz_hours=9)
    out.append((tz, {"rule": "TSLACK", "max_time": 10}, "timezone-aware-start"))
    for sp in F.scale_specs():
        if sp["label"] in ("scale:wide12", "scale:layers3x4", "scale:8components", "scale:long-unsorted-calendars"):
            out.append((sp, {"rule": "TSLACK", "max_time": F.seq_bound(sp) + 10, "absence": [2, 3]}, sp["label"]))
    for sp in F.same_name_task_specs()[:2]:
        out.append((sp, {"rule": "TSLACK", "max_time": 14}, "same-name"))
    for sp in F.double_link_specs()[:: (6 if tier == "quick" else 2)]:
        out.append((sp, {"rule": "TSLACK", "max_time": 16}, sp["label"]))  # two tasks joined by two links of different kinds
    for sp in F.nested_order_specs() + [F.loaned_worker_spec()] + F.two_pair_specs()[:: (3 if tier == "quick" else 1)]:
        out.append((sp, {"rule": "TSLACK", "max_time": F.seq_bound(sp) + 8}, sp["label"]))
    # sub-project task, configured from a saved result and (second model) never configured
    sub = F.with_teams({"tasks": [{"name": "T0", "work": 2.0}], "links": []}, "POOL1")
    ms = S.build(sub)
    ms.project.simulate(max_time=20, absence_time_list=[])
    path = os.path.join(tmpdir, "sub.json")
    ms.project.write_simple_json(path)
    par = {"tasks": [{"name": "T0", "work": 1.0}, {"name": "S1", "work": 1.0, "sub": {"file_path": path}}], "links": [[0, 1, "FS"]],
           "teams": [{"name": "TM0", "targets": [0], "workers": [{"name": "W0", "skills": {"T0": 1.0}, "cost": 1.0}]}]}
    out.append((dict(par, subproject_setup=True), {"rule": "TSLACK", "max_time": 12}, "subproject-configured"))
    out.append((dict(par), {"rule": "TSLACK", "max_time": 12}, "subproject-unconfigured"))
    sub2 = F.with_teams({"tasks": [{"name": "T0", "work": 5.0}], "links": []}, "POOL1")
    ms2 = S.build(sub2)
    ms2.project.simulate(max_time=20, absence_time_list=[])
    path2 = os.path.join(tmpdir, "sub-revised.json")
    ms2.project.write_simple_json(path2)
    out.append((dict(par, subproject_setup=True, sub_file_now=path2), {"rule": "TSLACK", "max_time": 12}, "subproject-configured-then-its-file-revised"))
    out.append((dict(par, subproject_setup="attributes-only", unit_min=3), {"rule": "TSLACK", "max_time": 12}, "subproject-configured-rate-left-at-1-with-another-unit"))
    out.append((dict(par, subproject_setup=True, unit_min=3), {"rule": "TSLACK", "max_time": 12}, "subproject-configured-with-another-unit"))
    # a task that two components list (the second one claimed it last); both orders inside the product's component list
    for corder in ([0, 1], [1, 0]):
        two = dict(F.with_teams({"tasks": [{"name": "T0", "work": 2.0}, {"name": "T1", "work": 2.0}], "links": [[0, 1, "FS"]]}, "POOL2"),
                   components=[{"name": "C0", "tasks": [0, 1]}, {"name": "C1", "tasks": [1]}], corder=corder)
        out.append((two, {"rule": "TSLACK", "max_time": 12}, "task-appended-to-two-components:%s" % corder))
    out.append((F.big_checkpoint_spec(), {"rule": "TSLACK", "max_time": 340}, "big-checkpoint"))
    return out


def work(chunk):
    col = engines.Collector()
    tmpdir = tempfile.mkdtemp(prefix="verif-c16-")
    try:
        for spec, opts, label, stage_idx in chunk:
            stages = stage_ops(spec, opts)
            if stage_idx >= len(stages):
                continue
            name, op = stages[stage_idx]
            key = hash((repr(spec), name))
            col.evaluations += 1
            col.transitions.add(key)
            col.states.add(key)
            if not name.startswith("never"):
                col.nontrivial.add(key)
            for sig, det in round_trip(spec, opts, name, op, tmpdir, col, label):
                col.violation({"property": "C16", "sig": sig, "kind": "roundtrip", "spec": spec, "opts": opts, "label": label, "stage_idx": stage_idx, "detail": det})
            col.outcomes[name.split("@")[0]] += 1
            if len(col.samples) < 3:
                col.samples.append({"model": label, "stage": name, "history": "reach stage; write; read into new project; write; compare; resolve references; re-simulate both"})
    finally:
        shutil.rmtree(tmpdir, ignore_errors=True)
    return col


# ----------------------------------------------------------------------------- constructor-parameter audit
EXCLUDED = {
    "parent_workflow": "back-reference, rebuilt on initialize",
    "parent_product": "back-reference",
    "additional_work_amount": "advanced (rework) feature",
    "additional_task_flag": "advanced (rework) feature",
    "actual_work_amount": "advanced (rework) feature",
    "error_tolerance": "advanced (error) feature",
    "error": "advanced (error) feature",
    "quality_skill_mean_map": "advanced (quality) feature",
    "quality_skill_sd_map": "advanced (quality) feature",
}


def norm(v):
    if isinstance(v, enum.Enum):
        return int(v)
    if isinstance(v, datetime.timedelta):
        return v.total_seconds()
    if isinstance(v, datetime.datetime):
        return v.strftime("%Y-%m-%d %H:%M:%S")
    if hasattr(v, "ID") and not isinstance(v, (str, int, float)):
        return "@" + v.ID
    if isinstance(v, (list, tuple)):
        return [norm(x) for x in v]
    if isinstance(v, dict):
        return {k: norm(x) for k, x in v.items()}
    if isinstance(v, bool) or v is None or isinstance(v, str):
        return v
    if isinstance(v, (int, float)):
        return float(v)
    if hasattr(v, "task_list"):
        return ["@" + t.ID for t in v.task_list]
    if hasattr(v, "component_list"):
        return ["@" + c.ID for c in v.component_list]
    if hasattr(v, "team_list"):
        return [["@" + t.ID for t in v.team_list], ["@" + w.ID for w in v.workplace_list]]
    return repr(v)


def audit_model():
    sp = {
        "tasks": [{"name": "T0", "work": 2.0, "nf": True}, {"name": "T1", "work": 1.0}, {"name": "S2", "work": 1.0, "sub": {"file_path": None}}],
        "links": [[0, 1, "FS"]],
        "components": [{"name": "C0", "tasks": [0], "children": [1]}, {"name": "C1", "tasks": [1]}],
        "workplaces": [{"name": "WP0", "cap": 2.0, "targets": [0], "facilities": [{"name": "F0", "skills": {"T0": 1.0}, "cost": 1.0}]},
                       {"name": "WP1", "cap": 1.0, "targets": [0], "inputs": [0], "facilities": [{"name": "F1", "skills": {"T0": 1.0}}]}],
        "teams": [{"name": "TM0", "targets": [0, 1], "workers": [{"name": "W0", "skills": {"T0": 1.0, "T1": 1.0}, "fskills": {"F0": 1.0}, "cost": 2.0}]},
                  {"name": "TM1", "targets": [1], "workers": [{"name": "W1", "skills": {"T1": 1.0}}]}],
    }
    m = S.build(sp, plain=True)
    # make the sub-project task exportable for the audit of the *other* classes
    return m


ALT = {
    "BaseProject": {
        "init_datetime": lambda m: datetime.datetime(2031, 5, 6, 7, 8, 9), "unit_timedelta": [lambda m: datetime.timedelta(minutes=7), lambda m: datetime.timedelta(days=1, hours=2), lambda m: datetime.timedelta(seconds=0.25)], "absence_time_list": lambda m: [1, 3],
        "perform_auto_task_while_absence_time": lambda m: True, "time": lambda m: 7, "cost_list": lambda m: [1.0, 2.5], "simulation_mode": lambda m: SimulationMode.BACKWARD,
        "status": lambda m: BaseProjectStatus.FINISHED_FAILURE, "product": None, "organization": None, "workflow": None,
    },
    "BaseTask": {
        "name": None, "ID": None, "default_work_amount": lambda m: 3.5, "work_amount_progress_of_unit_step_time": lambda m: 0.5,
        "input_task_list": None, "output_task_list": None, "allocated_team_list": lambda m: [m.byname["TM1"]], "allocated_workplace_list": lambda m: [m.byname["WP1"]],
        "workplace_priority_rule": lambda m: WorkplacePriorityRuleMode.SSP, "worker_priority_rule": lambda m: ResourcePriorityRuleMode.HSV, "facility_priority_rule": lambda m: ResourcePriorityRuleMode.VC,
        "need_facility": lambda m: False, "target_component": lambda m: m.byname["C1"], "default_progress": lambda m: 0.25, "due_time": lambda m: 9, "auto_task": lambda m: True,
        "fixing_allocating_worker_id_list": lambda m: ["W0"], "fixing_allocating_facility_id_list": lambda m: [],
        "est": lambda m: 2.0, "eft": lambda m: 3.0, "lst": lambda m: 0.0, "lft": lambda m: 0.0, "remaining_work_amount": lambda m: 0.0,
        "remaining_work_amount_record_list": lambda m: [2.0, 1.5], "state": lambda m: BaseTaskState.WORKING, "state_record_list": lambda m: [BaseTaskState.READY, BaseTaskState.WORKING],
        "allocated_worker_list": lambda m: [m.byname["W0"]], "allocated_worker_id_record": lambda m: [[], ["W0"]], "allocated_facility_list": lambda m: [m.byname["F0"]],
        "allocated_facility_id_record": lambda m: [[], ["F0"]],
    },
    "BaseSubProjectTask": {
        "file_path": lambda m: "some/where.json",
        "unit_timedelta": [lambda m: datetime.timedelta(minutes=3), lambda m: datetime.timedelta(days=2, seconds=5), lambda m: datetime.timedelta(seconds=1, microseconds=500000)], "read_json_file": lambda m: True, "remove_absence_time_list": lambda m: True,
    },
    "BaseComponent": {
        "name": None, "ID": None, "parent_component_list": None, "child_component_list": None, "targeted_task_list": lambda m: [m.byname["T0"], m.byname["T1"]], "space_size": lambda m: 2.5,
        "state": lambda m: BaseComponentState.WORKING, "state_record_list": lambda m: [BaseComponentState.READY, BaseComponentState.WORKING], "placed_workplace": lambda m: m.byname["WP1"],
        "placed_workplace_id_record": lambda m: [None, "WP1"],
    },
    "BaseWorker": {
        "name": None, "ID": None, "team_id": lambda m: "TM1", "main_workplace_id": [lambda m: "WP0", lambda m: "yard-of-another-project"], "cost_per_time": lambda m: 4.5, "solo_working": lambda m: True,
        "workamount_skill_mean_map": lambda m: {"T0": 0.0, "T1": 2.0}, "workamount_skill_sd_map": lambda m: {"T0": 0.25}, "facility_skill_map": lambda m: {"F1": 0.5},
        "absence_time_list": lambda m: [0, 2], "state": lambda m: BaseWorkerState.ABSENCE, "state_record_list": lambda m: [BaseWorkerState.FREE, BaseWorkerState.ABSENCE],
        "cost_list": lambda m: [0.0, 4.5], "assigned_task_list": lambda m: [m.byname["T1"]], "assigned_task_id_record": lambda m: [[], ["T1"]],
    },
    "BaseFacility": {
        "name": None, "ID": None, "workplace_id": lambda m: "WP1", "cost_per_time": lambda m: 4.5, "solo_working": lambda m: True, "workamount_skill_mean_map": lambda m: {"T0": 0.0, "T1": 2.0},
        "workamount_skill_sd_map": lambda m: {"T0": 0.25}, "absence_time_list": lambda m: [0, 2], "state": lambda m: BaseFacilityState.ABSENCE,
        "state_record_list": lambda m: [BaseFacilityState.FREE, BaseFacilityState.ABSENCE], "cost_list": lambda m: [0.0, 4.5], "assigned_task_list": lambda m: [m.byname["T0"]],
        "assigned_task_id_record": lambda m: [[], ["T0"]],
    },
    "BaseTeam": {"name": None, "ID": None, "worker_list": None, "targeted_task_list": lambda m: [m.byname["T1"]], "parent_team": lambda m: m.byname["TM1"], "cost_list": lambda m: [1.0, 0.0]},
    "BaseWorkplace": {
        "name": None, "ID": None, "facility_list": None, "targeted_task_list": lambda m: [m.byname["T1"]], "parent_workplace": lambda m: m.byname["WP1"], "max_space_size": lambda m: 3.5,
        "input_workplace_list": lambda m: [m.byname["WP1"]], "output_workplace_list": lambda m: [m.byname["WP1"]], "cost_list": lambda m: [1.0, 0.0],
        "placed_component_list": lambda m: [m.byname["C1"]], "placed_component_id_record": lambda m: [[], ["C1"]],
    },
    "BaseWorkflow": {"task_list": None, "critical_path_length": lambda m: 7.5},
    "BaseProduct": {"component_list": None},
    "BaseOrganization": {"team_list": None, "workplace_list": None, "cost_list": lambda m: [1.0, 2.0]},
}
CLASSES = {"BaseProject": BaseProject, "BaseTask": BaseTask, "BaseSubProjectTask": BaseSubProjectTask, "BaseComponent": BaseComponent, "BaseWorker": BaseWorker, "BaseFacility": BaseFacility,
           "BaseTeam": BaseTeam, "BaseWorkplace": BaseWorkplace, "BaseWorkflow": BaseWorkflow, "BaseProduct": BaseProduct, "BaseOrganization": BaseOrganization}
ALT["BaseSubProjectTask"].update({k: v for k, v in ALT["BaseTask"].items() if k not in ("auto_task", "need_facility", "target_component", "allocated_worker_list", "allocated_facility_list",
                                                                                       "allocated_team_list", "allocated_workplace_list")})


def target_of(m, cname):
    p = m.project
    return {"BaseProject": p, "BaseTask": m.byname["T0"], "BaseSubProjectTask": m.byname["S2"], "BaseComponent": m.byname["C0"], "BaseWorker": m.byname["W0"], "BaseFacility": m.byname["F0"],
            "BaseTeam": m.byname["TM0"], "BaseWorkplace": m.byname["WP0"], "BaseWorkflow": p.workflow, "BaseProduct": p.product, "BaseOrganization": p.organization}[cname]


def find_loaded(p2, cname, obj):
    m2 = S.adopt(p2)
    if cname in ("BaseProject",):
        return p2
    if cname == "BaseWorkflow":
        return p2.workflow
    if cname == "BaseProduct":
        return p2.product
    if cname == "BaseOrganization":
        return p2.organization
    return m2.byname.get(obj.name)


def audit(col, tmpdir):
    for cname, cls in CLASSES.items():
        params = [k for k in inspect.signature(cls.__init__).parameters if k != "self"]
        for prm in params:
            if prm in EXCLUDED:
                col.extra["audit-excluded"] += 1
                continue
            if prm not in ALT[cname]:
                col.extra["audit-unclassified-parameter:%s.%s" % (cname, prm)] += 1
                continue
            gens = ALT[cname][prm]
            if not isinstance(gens, list):
                gens = [gens]
            for gi, gen in enumerate(gens):
                audit_one(col, tmpdir, cname, prm, gen, gi)


def audit_one(col, tmpdir, cname, prm, gen, gi):
    if True:
        if True:
            m = audit_model()
            # the sub-project task must be exportable while other classes are audited
            sub = m.byname["S2"]
            if not hasattr(sub, "read_json_file"):
                sub.read_json_file = False  # (an unconfigured sub-project task is covered by the round-trip part)
            obj = target_of(m, cname)
            if gen is not None:
                alt = gen(m)
                setattr(obj, prm, alt)
            want = norm(getattr(obj, prm))
            col.evaluations += 1
            col.checks["c16.audit"] += 1
            key = hash(("audit", cname, prm, gi))
            col.states.add(key)
            col.transitions.add(key)
            col.nontrivial.add(key)
            path = os.path.join(tmpdir, "audit.json")
            try:
                m.project.write_simple_json(path)
                p2 = load(path)
            except Exception as e:
                col.violation({"property": "C16", "sig": "C16:audit-save/load-raised:%s.%s:%s" % (cname, prm, type(e).__name__), "kind": "audit", "cls": cname, "param": prm, "detail": {"error": repr(e)}})
                return
            o2 = find_loaded(p2, cname, obj)
            got = norm(getattr(o2, prm, "<attribute missing>")) if o2 is not None else "<object missing>"
            if got != want:
                col.violation({"property": "C16", "sig": "C16:constructor-parameter-not-restored:%s.%s" % (cname, prm), "kind": "audit", "cls": cname, "param": prm,
                               "detail": {"saved_value": want, "loaded_value": got}})


def run(tier, seed):
    tmpdir = tempfile.mkdtemp(prefix="verif-c16m-")
    try:
        ms = models(tier, tmpdir)
        items = []
        for sp, opts, label in ms:
            st = stage_ops(sp, opts)
            for i in range(len(st)):
                if label.startswith("big-") and st[i][0] not in ("never-simulated", "paused@190", "paused@5", "finished-forward"):
                    continue  # (the megabyte-sized model takes four of its stages)
                items.append((sp, opts, label, i))
        col = engines.fanout(items, work, seed=seed)
        audit(col, tmpdir)
    finally:
        shutil.rmtree(tmpdir, ignore_errors=True)
    meta = {
        "level": "model_checking",
        "rule": "histories stage; write; read; write on real projects: models (FS chain, parallel, automatic, facility+conveyor, shared, nested, numeric edge values, zero work, empty lists, flows with absence, "
        "FAC samples, configured and unconfigured sub-project task) x every stage (never simulated, initialized, paused at EVERY step k, finished forward, finished backward with both reverse flags): writing never "
        "raises, the re-export of the loaded project equals the file value-for-value, every cross reference resolves to an object of the loaded project, re-simulation equals the original's for models using "
        "only saved settings, and a paused project continues (state and logs kept) to the same result in the original and in the loaded project under TSLACK, LWRPT and FIFO; plus the behavioural constructor-parameter audit: for every class and every constructor parameter found by inspect.signature (outside a documented exclusion list) the attribute is "
        "set to a non-default value, saved, loaded and compared; non-trivial = distinct (model, stage) beyond 'never simulated' + audited (class, parameter) pairs",
        "bounds": {"models": len(ms), "model_stage_pairs": len(items)},
        "assumptions": ["exclusion list of the audit: " + ", ".join("%s (%s)" % kv for kv in sorted(EXCLUDED.items())),
                        "constructor parameters not in the harness' table are reported in coverage.extra as unclassified, not as violations"],
    }
    return col, meta


def replay(v):
    tmpdir = tempfile.mkdtemp(prefix="verif-c16r-")
    try:
        col = engines.Collector()
        if v.get("kind") == "audit":
            audit(col, tmpdir)
            return [x for x in col.violations if x["sig"] == v["sig"]]
        spec = v["spec"]
        if str(v.get("label", "")).startswith("subproject"):
            for sp, opts, label in models("quick", tmpdir):
                if label == v["label"]:
                    spec = sp
        stages = stage_ops(spec, v["opts"])
        name, op = stages[v["stage_idx"]]
        return [{"sig": s, "detail": d} for s, d in round_trip(spec, v["opts"], name, op, tmpdir, col, v.get("label"))]
    finally:
        shutil.rmtree(tmpdir, ignore_errors=True)
