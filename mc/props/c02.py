"""C02 - remaining work changes only by the allocated resources' contribution."""
from .. import families as F, monitors as M, stepcheck

MONS = [M.mon_c02]


def _variants(sp, k):
    sp = dict(sp, tasks=[dict(t) for t in sp["tasks"]])
    n = len(sp["tasks"])
    if k == 1:
        sp["tasks"][0]["progress"] = 0.25
    elif k == 2:
        sp["tasks"][0]["progress"] = 1.0
        sp["tasks"][-1]["progress"] = 0.5
    elif k == 3:
        sp["tasks"][-1]["auto"] = True
        sp["tasks"][-1]["unit"] = 0.5
    elif k == 4:
        sp["tasks"][0]["auto"] = True
    return sp


def items(tier):
    out = []
    if tier == "quick":
        fl3 = list(F.flows(3, ("FS", "FF"), (1, 2)))
        fl2 = list(F.flows(2, F.KINDS4, (0.5, 1, 1.5, 3)))
        lays = ("MIX", "POOL2")
        fac = list(F.fac_specs("quick"))
        nvar = 5  # automatic variants too: work that is not a multiple of the unit rate ends below zero
    else:
        fl3 = list(F.flows(3, ("FS", "FF", "SS"), (1, 2, 3)))
        fl2 = list(F.flows(2, F.KINDS4, (0.5, 1, 1.5, 2, 3)))
        lays = ("MIX", "POOL2", "SOLO", "DED")
        fac = list(F.fac_specs("thorough"))
        nvar = 5
    for fl in fl3 + fl2:
        for lay in lays:
            sp = F.with_teams(fl, lay)
            out.append((sp, {"rule": "TSLACK", "max_time": F.seq_bound(sp) + 8}))
    for fl in fl2:
        for k in range(1, nvar):
            sp = _variants(F.with_teams(fl, "MIX"), k)
            for aa in (False, True):
                out.append((sp, {"rule": "TSLACK", "auto_abs": aa, "max_time": F.seq_bound(sp) + 8}))
    for sp in fac:
        out.append((sp, {"rule": "TSLACK", "max_time": F.seq_bound(sp) + 8}))
    # zero-work tasks (milestones done by workers): WORKING for one step, the allocated skills are subtracted all the same
    for fl in list(F.flows(3, ("FS", "SS", "FF"), (0, 2)))[:: (3 if tier == "quick" else 1)]:
        if all(t["work"] > 0 for t in fl["tasks"]):
            continue
        sp = F.with_teams(fl, "POOL2")
        out.append((sp, {"rule": "TSLACK", "max_time": F.seq_bound(sp) + 8}))
    for fl in F.flows(3, ("FF", "SF", "FS"), (1, 2)):
        if any(k in ("FF", "SF") for _, _, k in fl["links"]):
            sp = dict(F.with_teams(fl, "DED"), order=[2, 1, 0])
            out.append((sp, {"rule": "TSLACK", "max_time": F.seq_bound(sp) + 8}))
    for sp0 in F.auto_component_specs():
        sp = dict(sp0, tasks=[dict(t, nf=True) if t.get("auto") else dict(t) for t in sp0["tasks"]])  # automatic AND need_facility
        for aa in (False, True):
            out.append((sp, {"rule": "TSLACK", "auto_abs": aa, "max_time": F.seq_bound(sp) + 12}))
    out.append(({"tasks": [{"name": "T0", "work": 3.0, "auto": True, "nf": True, "unit": 0.5}], "links": [], "teams": []}, {"rule": "TSLACK", "max_time": 12}))
    for sp in F.double_link_specs() + [F.float_noise_spec()] + F.float_residue_specs():
        out.append((sp, {"rule": "TSLACK", "max_time": F.seq_bound(sp) + 10}))
    for sp in F.same_name_task_specs() + F.auto_in_workplace_specs() + F.ff_chain_specs() + F.nested_running_specs():
        out.append((sp, {"rule": "TSLACK", "max_time": F.seq_bound(sp) + 10}))
    for sp in F.auto_component_specs() + F.rule_sensitive_specs():
        for aa in (False, True):
            out.append((sp, {"rule": "TSLACK", "auto_abs": aa, "max_time": F.seq_bound(sp) + 12}))
    # worker skill x facility skill grid on one facility task with 1-2 pairs
    for ws in (0.5, 1.0, 2.0):
        for fs in (0.5, 1.0, 2.0):
            for two in (False, True, "perm"):
                sp = {
                    "tasks": [{"name": "T0", "work": 3.0, "nf": True}],
                    "links": [],
                    "components": [{"name": "C0", "tasks": [0]}],
                    "workplaces": [{"name": "WP0", "cap": 1.0, "targets": [0], "facilities": [{"name": "F0", "skills": {"T0": fs}}] + ([{"name": "F1", "skills": {"T0": 1.0}}] if two else [])}],
                    "teams": [{"name": "TM0", "targets": [0], "workers": [{"name": "W0", "skills": {"T0": ws}, "fskills": {"F0": 1.0, "F1": 1.0}}] + ([{"name": "W1", "skills": {"T0": 1.5}, "fskills": {"F0": 1.0, "F1": 1.0}}] if two else [])}],
                }
                if two == "perm":
                    # the worker's entry for the machine is a permission (any positive value), not a factor of the contribution
                    sp["teams"][0]["workers"][0]["fskills"] = {"F0": 2.0, "F1": 0.5}
                    sp["teams"][0]["workers"][1]["fskills"] = {"F0": 0.5, "F1": 2.0}
                out.append((sp, {"rule": "TSLACK", "max_time": 30}))
    return out


def run(tier, seed):
    H, D = (4, 1) if tier == "quick" else (4, 2)
    its = items(tier)
    col = stepcheck.explore(its, MONS, H, D, seed=seed)
    lit = [(sp, {"rule": "TSLACK", "max_time": 20}) for sp in F.unsorted_absence_specs() + F.large_amount_specs()]
    # the error_tol keyword of simulate() set to 0 (amounts that reach exactly 0) on a slice
    lit += [(sp, dict(o, error_tol=0.0)) for sp, o in its[::7]]
    col.merge(stepcheck.explore(lit, MONS, 0, 0, seed=seed))
    # runs stopped at step k and continued, with a worker's / facility's own absence list edited at the stop; second runs after such edits
    col.merge(stepcheck.explore(stepcheck.resumed_edit_items(("worker-absence-append-3",), ks=(1, 2, 3)) + stepcheck.resumed_edit_items(("worker-absence-inplace",), ks=(1,))
                                + stepcheck.resumed_edit_items(("worker-skill", "add-ff-link"), ks=(1,))  # a skill revised / a finish-to-finish link added at a stop, the run continued on the same objects
                                + stepcheck.edited_items(names=("worker-absence-inplace", "worker-absence-move", "worker-absence-append-3", "facility-absence-inplace", "worker-skill", "add-ff-link")), MONS, 0, 0, seed=seed))
    # two links between one pair declared with extend_input_task_list, in backward runs
    dl = [(dict(sp, link_api=api), {"rule": "TSLACK", "max_time": F.seq_bound(sp) + 12, "backward": True, "rev": False}) for sp in F.double_link_specs() for api in ("extend", None)]
    col.merge(stepcheck.explore(dl, MONS, 0, 0, seed=seed))
    # backward runs (inner run observed) with project-wide absence steps and both values of the automatic-task flag; forward and backward results
    # (logs reversed) whose absence steps - some of them named beyond the end of the run - are deleted afterwards
    bsel = [(sp, o) for sp, o in its if not sp.get("order")][:: (6 if tier == "quick" else 2)]
    bi = [(sp, dict(o, backward=True, rev=False, absence=list(ab), auto_abs=aa, max_time=o["max_time"] + 6)) for sp, o in bsel for ab in ((1,), (0, 2), (2, 3)) for aa in (False, True)]
    bi += [(sp, dict(o, backward=bk, rev=True, absence=list(ab), post_remove=True, max_time=o["max_time"] + 6)) for sp, o in bsel for ab in ((1,), (2, 3, 11, 12), (0, 2, 9), (1, 30)) for bk in (False, True)]
    col.merge(stepcheck.explore(bi, MONS, 0, 0, seed=seed))
    col.merge(stepcheck.explore(F.scale_items(("TSLACK",)), MONS, 0, 0, seed=seed))  # medium-sized models (10-14 tasks / workers / machines), long absence lists
    col.merge(stepcheck.explore(F.extra_items(("TSLACK",), calendars=True), MONS, 0, 0, seed=seed))  # other ways of building the object graph; continuations under a revised calendar
    meta = {
        "level": "model_checking",
        "rule": "3-task FS/FF(/SS) and 2-task all-kind workflows over dyadic work amounts x worker layouts (mixed skills incl. 0 and missing, solo, dedicated) "
        "x progress/auto variants x the FAC facility family x a worker-skill x facility-skill grid, each explored over all absence answers "
        "(project, each worker, each facility) up to horizon H with <= D non-default answers; non-trivial = distinct (model, task, allocation, expected contribution>0) perform events",
        "bounds": {"H": H, "D": D, "base_models": len(its)},
        "assumptions": ["deterministic skills (sd 0)", "a resource shared by two WORKING tasks is a C03 violation; the oracle uses the undivided skill of the statement"],
    }
    if col.checks["c02.perform"] == 0 or not col.nontrivial:
        meta["vacuous"] = "no perform step with a positive expected contribution was observed"
    return col, meta


def replay(v):
    return stepcheck.replay(v, MONS)
