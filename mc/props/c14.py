"""C14 - component state determined by the states of its tasks."""
import itertools

from .. import families as F, monitors as M, stepcheck

MONS = [M.mon_c14]


def assignments(n, ncomp):
    """every map task -> component in 0..ncomp-1 or None (no component)."""
    return itertools.product([None] + list(range(ncomp)), repeat=n)


def items(tier):
    out = []
    if tier == "quick":
        flows = list(F.flows(3, ("FS", "SS"), (1, 2)))[::4]
        ncomp = 2
    else:
        flows = list(F.flows(3, ("FS", "SS"), (1, 2)))
        ncomp = 3
    for fl in flows:
        for asg in assignments(3, ncomp):
            comps = [{"name": "C%d" % c, "tasks": [i for i in range(3) if asg[i] == c]} for c in range(ncomp)]
            for var in (0, 1, 2):
                sp = F.with_teams(fl, "POOL2")
                sp = dict(sp, tasks=[dict(t) for t in sp["tasks"]], components=comps)
                if var == 1:
                    sp["tasks"][0]["progress"] = 1.0 if len(fl["links"]) % 2 else 1.0 - 5e-11  # complete, or complete within the tolerance
                    sp["tasks"][1]["progress"] = 0.5
                elif var == 2:
                    sp["tasks"][2]["auto"] = True
                for aa in ((False,) if var != 2 else (False, True)):
                    out.append((sp, {"rule": "TSLACK", "auto_abs": aa, "max_time": F.seq_bound(sp) + 8}))
    for sp in F.fac_specs(tier):
        out.append((sp, {"rule": "TSLACK", "max_time": F.seq_bound(sp) + 8}))
    for sp in F.auto_component_specs() + F.nested_running_specs() + F.nested_order_specs():
        for aa in (False, True):
            out.append((sp, {"rule": "TSLACK", "auto_abs": aa, "max_time": F.seq_bound(sp) + 12}))
    for k in (3, 4, 5, 7):
        out.append((F.many_components_spec(k), {"rule": "TSLACK", "max_time": 12}))
    out.append((F.idle_component_spec(), {"rule": "TSLACK", "max_time": 14}))
    # components that list their tasks through the constructor keyword only (the tasks do not point back), and a task listed by two components
    for fl in list(F.flows(3, ("FS", "SS"), (1, 2)))[:: (6 if tier == "quick" else 1)]:
        sp = F.with_teams(fl, "POOL2")
        out.append((dict(sp, components=[{"name": "C0", "tasks": [0, 1], "wire": "ctor"}, {"name": "C1", "tasks": [2], "wire": "ctor"}]), {"rule": "TSLACK", "max_time": F.seq_bound(sp) + 8}))
        out.append((dict(sp, components=[{"name": "C0", "tasks": [0], "also_lists": [2]}, {"name": "C1", "tasks": [1, 2]}]), {"rule": "TSLACK", "max_time": F.seq_bound(sp) + 8}))
    sc = F.shared_child_spec()
    for extra in ({}, {"backward": True, "rev": True}, {"backward": True, "rev": False}, {"post_insert": [2, 1]}, {"post_insert": [3, 1, 2]}, {"reload": True}):
        out.append((sc, dict({"rule": "TSLACK", "max_time": 20}, **extra)))
    # the component/task log relation after absence steps were inserted afterwards (in any order) and after a backward run
    for sp, o in list(out)[:: (11 if tier == "quick" else 3)]:
        for lst in ([1], [2, 1], [4, 2], [3, 1, 2]):
            out.append((sp, dict(o, post_insert=lst)))
        out.append((sp, dict(o, backward=True, rev=True)))
    # automatic work that goes on during project-wide absence steps, with a holiday entered afterwards at every single step of the result
    for sp in [F.oven_spec(3.0), F.oven_spec(2.0)] + F.auto_component_specs()[:: (4 if tier == "quick" else 1)]:
        for ab in ([1, 2], [0, 1], [2], [0, 2, 3]):
            for ins in range(0, 8):
                out.append((sp, {"rule": "TSLACK", "auto_abs": True, "absence": ab, "max_time": F.seq_bound(sp) + 14, "post_insert": [ins]}))
    # products grown step by step (register a component, hang its parts under it, register the parts when their turn comes)
    for sp in F.three_level_product_specs() + F.nested_running_specs() + F.nested_order_specs():
        out.append((dict(sp, product_wire="register-and-link"), {"rule": "TSLACK", "max_time": F.seq_bound(sp) + 8}))
        out.append((dict(sp, product_wire="part-first"), {"rule": "TSLACK", "max_time": F.seq_bound(sp) + 8}))  # parts registered first, hung under their (not yet registered) assembly, assembly registered last
    # parts of a user subclass with value equality: two equal wheels (same part name), each with a task of its own
    for wv in ((2.0, 3.0), (3.0, 1.0)):
        wheels = dict(F.with_teams({"tasks": [{"name": "T0", "work": wv[0]}, {"name": "T1", "work": wv[1]}, {"name": "T2", "work": 1.0}], "links": [[0, 2, "FS"], [1, 2, "FS"]]}, "POOL2"),
                      components=[{"name": "wheel", "id": "wheel-left", "tasks": [0]}, {"name": "wheel", "id": "wheel-right", "tasks": [1]}, {"name": "axle", "tasks": [2]}], value_eq_components=True)
        for extra in ({}, {"absence": [1]}, {"post_insert": [1]}, {"post_insert": [2, 4]}, {"backward": True, "rev": True}):
            out.append((wheels, dict({"rule": "TSLACK", "max_time": 16}, **extra)))
    # runs stopped at step k, looked at through every read-only helper (chart data, queries, printing), and continued
    for sp, o in list(out)[:: (9 if tier == "quick" else 3)]:
        if not (o.get("post_insert") or o.get("backward") or o.get("reload")):
            for k in (1, 2, 3):
                out.append((sp, dict(o, resume_from=k, pause_queries=True)))
    # holidays inserted into backward results (logs reversed into forward reading: FINISHED ... WORKING), one at every position
    for sp in F.rule_sensitive_specs()[:2] + [F.idle_component_spec()]:
        for ins in range(1, 9):
            out.append((sp, {"rule": "TSLACK", "max_time": F.seq_bound(sp) + 8, "backward": True, "rev": True, "post_insert": [ins]}))
    # a sub-project task (not configured from a file) as the only task of a component, between two worked tasks: absence steps deleted / inserted afterwards
    subc = {"tasks": [{"name": "T0", "work": 2.0}, {"name": "S1", "work": 3.0, "sub": {}}, {"name": "T2", "work": 1.0}], "links": [[0, 1, "FS"], [1, 2, "FS"]],
            "components": [{"name": "module", "tasks": [1]}, {"name": "frame", "tasks": [0, 2]}],
            "workplaces": [{"name": "bay", "cap": 1.0, "targets": [1], "facilities": [{"name": "rig", "skills": {"S1": 1.0}}]}],  # (a component is only carried into a workplace equipped for its task)
            "teams": [{"name": "TM0", "targets": [0, 2], "workers": [{"name": "W0", "skills": {"T0": 1.0, "T2": 1.0}, "cost": 1.0}]}]}
    for ab in ([1], [3, 4], [0, 3]):
        out.append((subc, {"rule": "TSLACK", "absence": ab, "max_time": 16, "post_remove": True}))
        out.append((subc, {"rule": "TSLACK", "absence": ab, "max_time": 16}))
        out.append((subc, {"rule": "TSLACK", "absence": ab, "max_time": 16, "post_insert": [2]}))
    # a component all of whose tasks are complete from the start, next to ordinary ones: holidays inserted at the very beginning
    done = dict(F.with_teams({"tasks": [{"name": "T0", "work": 2.0, "progress": 1.0}, {"name": "T1", "work": 2.0}, {"name": "T2", "work": 1.0, "progress": 1.0}], "links": [[1, 2, "FS"]]}, "POOL2"),
                components=[{"name": "drawings", "tasks": [0]}, {"name": "hull", "tasks": [1]}, {"name": "papers", "tasks": [2]}])
    for ins in ([0], [0, 1], [1], [0, 2]):
        out.append((done, {"rule": "TSLACK", "max_time": 12, "post_insert": ins}))
    # the same invariants on a run that follows an earlier run on the same project object
    for sp, o in list(out)[:: (7 if tier == "quick" else 2)]:
        out.append((sp, dict(o, presim=1)))
        out.append((sp, dict(o, presim=1, presim_absence=[0])))
    return out


def resume_items(tier):
    """runs stopped at step k and continued with state and logs kept: the component life cycle must go on where it was"""
    out = []
    base = [(sp, o) for sp, o in items(tier) if not any(k in o for k in ("backward", "post_insert", "reload", "presim"))]
    sel = base[:: (9 if tier == "quick" else 3)] + [(F.idle_component_spec(), {"rule": "TSLACK", "max_time": 14}), (F.waiting_component_spec(), {"rule": "TSLACK", "max_time": 14}),
                                                  (F.shared_child_spec(), {"rule": "TSLACK", "max_time": 20})]
    for sp, o in sel:
        for k in range(1, 6):
            out.append((sp, dict(o, resume_from=k)))
            if k <= 4:
                out.append((sp, dict(o, resume_from=k, resume_via_json=True)))  # ... written to JSON and continued in a new project
    return out


def run(tier, seed):
    H, D = (4, 1) if tier == "quick" else (5, 2)
    its = items(tier)
    col = stepcheck.explore(its, MONS, H, D, who_fn=lambda sp: ["P"] + F.worker_names(sp)[:1], seed=seed)
    ri = resume_items(tier)
    col.merge(stepcheck.explore(ri, MONS, 0, 0, seed=seed))
    col.merge(stepcheck.explore(stepcheck.edited_items(names=("add-task", "add-link", "task-work")), MONS, 0, 0, seed=seed))  # the model edited between two runs (a first task for an empty component)
    col.merge(stepcheck.explore(F.scale_items(("TSLACK",)), MONS, 0, 0, seed=seed))
    col.merge(stepcheck.explore(F.extra_items(("TSLACK",), calendars=True), MONS, 0, 0, seed=seed))  # other ways of building the object graph; continuations under a revised calendar
    # the component/task log relation after the absence steps were deleted again (long, regular calendars on runs of 20-60 steps)
    week = [k for k in range(0, 75) if k % 7 in (5, 6)]
    pr = [(sp, dict(o, absence=list(ab), post_remove=True, max_time=o["max_time"] + len(ab))) for sp, o in F.scale_items(("TSLACK",)) if not o["absence"] and not o.get("res_absence")
          for ab in (week[:18], week, [3, 4, 9, 15, 16, 17, 22, 23, 30, 31], list(range(0, 60, 3)))]
    pr += [(sp, dict(o, absence=[1, 3], post_remove=True)) for sp, o in its[::13] if not any(k in o for k in ("backward", "post_insert", "reload", "presim", "absence"))]
    col.merge(stepcheck.explore(pr, MONS, 0, 0, seed=seed))  # medium-sized models (10-14 tasks / workers / machines), long absence lists
    meta = {
        "level": "model_checking",
        "rule": "FS/SS workflows on 3 tasks x every assignment of the tasks to <=2 (thorough 3) components or to none (incl. empty components) x progress/auto variants, "
        "plus the FAC family (nested components, placement), components wired through the constructor keyword only, a task listed by two components, runs stopped at step 1..5 and continued, and a slice of all of these observed on a second simulate() of the same project object, each explored over absence answers (project, first worker) up to horizon H with <= D non-default answers; "
        "non-trivial = distinct (model, component, mixed task-state vector, component state) observations",
        "bounds": {"H": H, "D": D, "base_models": len(its), "runs stopped at step 1..5 and continued": len(ri)},
        "assumptions": ["log clause uses the documented display rule (WORKING logged as READY at project-wide absence steps) for tasks and components alike"],
    }
    if not col.nontrivial:
        meta["vacuous"] = "no component with tasks in mixed states observed"
    return col, meta


def replay(v):
    return stepcheck.replay(v, MONS)
