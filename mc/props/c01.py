"""C01 - dependencies never violated; lifecycle only advances."""
import itertools

from .. import families as F, monitors as M, stepcheck

MONS = [M.mon_c01]


def items(tier):
    out = []
    if tier == "quick":
        flows = list(F.flows(3, F.KINDS4, (1, 2)))
        layouts = ("POOL2", "DED")
        rules = ("TSLACK",)
    else:
        flows = list(F.flows(3, F.KINDS4, (1, 2, 3)))
        layouts = ("POOL1", "POOL2", "DED", "SOLO")
        rules = ("TSLACK", "LPT", "FIFO", "SPT", "EST", "LRPT", "SRPT", "LWRPT", "SWRPT")
    for fl in flows:
        for lay in layouts:
            sp = F.with_teams(fl, lay)
            for rule in rules:
                out.append((sp, {"rule": rule, "max_time": F.seq_bound(sp) + 8}))
    # the order of the entries inside input_task_list (links declared in reverse order) and of task_list
    for fl in F.flows(3, F.KINDS4, (2, 1)):
        if len([1 for i, j, k in fl["links"] if j == 2]) < 2:
            continue
        fl2 = dict(fl, links=list(reversed(fl["links"])))
        for lay in ("POOL1", "POOL2"):
            sp = F.with_teams(fl2, lay)
            out.append((sp, {"rule": "TSLACK", "max_time": F.seq_bound(sp) + 8}))
            out.append((dict(sp, order=[2, 1, 0]), {"rule": "SPT", "max_time": F.seq_bound(sp) + 8}))
    # an automatic task that belongs to a placed component
    for sp in F.double_link_specs():
        out.append((sp, {"rule": "TSLACK", "max_time": F.seq_bound(sp) + 8}))
    # the same workflows with their links declared in the other legitimate ways (kind as a plain integer; extend_input_task_list with a list / a generator)
    for fl in list(F.flows(3, F.KINDS4, (1, 2)))[:: (7 if tier == "quick" else 2)]:
        if not fl["links"]:
            continue
        for api in ("int", "extend", "extend-gen", "input-only"):
            sp = dict(F.with_teams(fl, "POOL2"), link_api=api)
            out.append((sp, {"rule": "TSLACK", "max_time": F.seq_bound(sp) + 8}))
    for sp in F.second_workflow_specs() + F.five_task_join_specs()[::4]:
        out.append((sp, {"rule": "TSLACK", "max_time": F.seq_bound(sp) + 8}))
    for sp in F.auto_component_specs() + F.auto_in_workplace_specs() + F.same_name_task_specs() + F.nested_running_specs() + F.ff_chain_specs():
        for aa in (False, True):
            out.append((sp, {"rule": "TSLACK", "auto_abs": aa, "max_time": F.seq_bound(sp) + 10}))
    # zero-work (milestone) tasks: not exempt - their default progress is 0 - so they must wait like any other task
    for fl in F.flows(3, F.KINDS4, (0, 2)):
        if all(t["work"] > 0 for t in fl["tasks"]):
            continue
        for lay in (("POOL2",) if tier == "quick" else ("POOL2", "DED")):
            sp = F.with_teams(fl, lay)
            out.append((sp, {"rule": "TSLACK", "max_time": F.seq_bound(sp) + 8}))
        sp = F.with_teams(fl, "POOL2")
        sp = dict(sp, tasks=[dict(t, auto=(t["work"] == 0)) for t in sp["tasks"]])
        out.append((sp, {"rule": "TSLACK", "max_time": F.seq_bound(sp) + 8}))
    # pre-finished / half-done / automatic variants on the 2-work flows
    base = list(F.flows(3, F.KINDS4, (2,)))
    for fl in base:
        for var in range(3 if tier == "quick" else 6):
            sp = F.with_teams(fl, "POOL2")
            sp = dict(sp, tasks=[dict(t) for t in sp["tasks"]])
            if var == 0:
                sp["tasks"][0]["progress"] = 1.0
            elif var == 1:
                sp["tasks"][1]["progress"] = 0.5
                sp["tasks"][2]["auto"] = True
            elif var == 2:
                sp["tasks"][0]["auto"] = True
                sp["tasks"][1]["auto"] = True
            elif var == 3:
                sp["tasks"][1]["progress"] = 1.0
                sp["tasks"][2]["progress"] = 0.5
            elif var == 4:
                sp["order"] = [2, 1, 0]
            elif var == 5:
                sp["hash"] = [2, 1, 0]
                sp["tasks"][2]["auto"] = True
            for auto_abs in (False, True):
                out.append((sp, {"rule": "TSLACK", "auto_abs": auto_abs, "max_time": F.seq_bound(sp) + 8}))
    if tier == "thorough":
        for fl in F.flows(4, F.KINDS4, (1,)):
            sp = F.with_teams(fl, "POOL2")
            out.append((sp, {"rule": "TSLACK", "max_time": F.seq_bound(sp) + 8}))
    return out


def bounds(tier):
    return (4, 1) if tier == "quick" else (5, 2)


def run(tier, seed):
    H, D = bounds(tier)
    its = items(tier)
    col = stepcheck.explore(its, MONS, H, D, who_fn=lambda sp: stepcheck.default_who(sp, facilities=False), seed=seed)
    col.merge(stepcheck.explore(stepcheck.edited_items(), MONS, 0, 0, seed=seed))  # runs after an earlier run and an in-place model edit
    col.merge(stepcheck.explore(stepcheck.resumed_edit_items(("add-ff-link", "add-sf-link"), ks=(1,)), MONS, 0, 0, seed=seed))  # a link added at a stop (before the successor could have finished / started), run continued
    # a project stopped at step k and started again with the states reset and the logs kept (the new life cycle is appended to the old records)
    linked = [it for it in its if it[0]["links"] and it[1]["rule"] == "TSLACK" and not it[1].get("auto_abs")]
    rs = stepcheck.restarted_items(linked[:: (4 if tier == "quick" else 1)], ks=(1, 2, 3, 4))
    # continued with the states kept and the logs started afresh (the one flag pair that resets the logs only)
    rs += stepcheck.restarted_items(linked[:: (5 if tier == "quick" else 2)], ks=(1, 2, 3, 4), flags=(False, True))
    col.merge(stepcheck.explore(rs, MONS, 0, 0, seed=seed))
    # a step width other than 1 with absence times that no step falls on: no step is an absence step, no state may go back
    ut = [(sp, dict(o, unit_time=u, absence=list(ab), max_time=o["max_time"] * u)) for sp, o in linked[:: (9 if tier == "quick" else 3)] for u, ab in ((2, (1, 3)), (2, (3,)), (3, (1, 2, 4)))]
    col.merge(stepcheck.explore(ut, MONS, 0, 0, seed=seed))
    col.merge(stepcheck.explore(F.scale_items(("TSLACK", "FIFO")), MONS, 0, 0, seed=seed))  # medium-sized models (10-14 tasks / workers / machines), long absence lists
    col.merge(stepcheck.explore(F.extra_items(("TSLACK", "FIFO"), calendars=True), MONS, 0, 0, seed=seed))  # other ways of building the object graph; continuations under a revised calendar
    meta = {
        "level": "model_checking",
        "rule": "every workflow on 3 tasks (thorough: also 4) with each pair i<j unlinked or linked FS/SS/FF/SF x work vectors (incl. zero-work milestone tasks, manual and automatic) x team layouts x task rules "
        "x progress/auto/order variants, each explored over all per-step absence answers (project-wide or one worker) up to horizon H with at most D "
        "non-default answers, state-merged at choice points; non-trivial = distinct (model, task, predecessor-state vector) combinations at which a start or finish gate of a task with predecessors was evaluated",
        "bounds": {"H": H, "D": D, "base_models": len(its), "restarted(states reset, logs kept) at step 1..4": len(rs)},
        "assumptions": ["deterministic skills (sd 0)", "state merging at 'updated' phases is sound (checked against unmerged exploration in tools/selftest)"],
        "exhaustive": True,
    }
    if col.checks["c01.start-gate"] + col.checks["c01.finish-gate"] == 0:
        meta["vacuous"] = "no dependency gate was ever evaluated"
    return col, meta


def replay(v):
    return stepcheck.replay(v, MONS)
