"""C04 - only eligible resources are ever allocated."""
import itertools

from .. import families as F, monitors as M, stepcheck

MONS = [M.mon_c04]
SK = (None, 0.0, 1e-11, 1.0, -0.5)  # missing, zero, below tolerance, positive, negative


def items(tier):
    out = []
    # (a) skill grid: 2 workers x 2 tasks, every skill in SK; tasks parallel or FS-chained
    for links in ([], [[0, 1, "FS"]]):
        for grid in itertools.product(SK, repeat=4):
            ws = []
            for wi in range(2):
                sk = {}
                for ti in range(2):
                    v = grid[wi * 2 + ti]
                    if v is not None:
                        sk["T%d" % ti] = v
                ws.append({"name": "W%d" % wi, "skills": sk, "cost": 1.0})
            sp = {"tasks": [{"name": "T0", "work": 2.0}, {"name": "T1", "work": 1.0}], "links": links,
                  "teams": [{"name": "TM0", "targets": [0, 1], "workers": ws}]}
            out.append((sp, {"rule": "TSLACK", "max_time": 8}))
    # (b) team targeting on/off per (team, task), 2 teams with one full-skill worker each (+ solo flags)
    for tg in itertools.product((False, True), repeat=4):
        for solo in itertools.product((False, True), repeat=2):
            teams = []
            for k in range(2):
                teams.append({"name": "TM%d" % k, "targets": [ti for ti in range(2) if tg[k * 2 + ti]],
                              "workers": [{"name": "W%d" % k, "skills": {"T0": 1.0, "T1": 1.0}, "solo": solo[k], "cost": 1.0}]})
            sp = {"tasks": [{"name": "T0", "work": 2.0}, {"name": "T1", "work": 2.0}], "links": [], "teams": teams}
            out.append((sp, {"rule": "TSLACK", "max_time": 10}))
    # (c) fixed worker-ID lists x solo flags on 3 pooled workers and 2-3 parallel tasks
    fixes = (None, [], ["W0"], ["W1"], ["W0", "W1"], ["W2", "nobody"])
    for f0, f1 in itertools.product(fixes, repeat=2):
        for solo in ((False, False, False), (True, False, False), (True, True, False)):
            ws = [{"name": "W%d" % i, "skills": {"T0": 1.0, "T1": 1.0, "T2": 1.0}, "solo": solo[i], "cost": 1.0} for i in range(3)]
            sp = {"tasks": [{"name": "T0", "work": 3.0, "fixw": f0}, {"name": "T1", "work": 2.0, "fixw": f1}, {"name": "T2", "work": 1.0}],
                  "links": [], "teams": [{"name": "TM0", "targets": [0, 1, 2], "workers": ws}]}
            out.append((sp, {"rule": "TSLACK", "max_time": 14}))
    # (c2) the fixed list names a skilled worker whose team is not assigned to the task
    for f0 in (["W0", "W1"], ["W1"], ["W1", "W0"]):
        for tg1 in ([1], [0, 1], []):
            sp = {"tasks": [{"name": "T0", "work": 3.0, "fixw": f0}, {"name": "T1", "work": 2.0}], "links": [],
                  "teams": [{"name": "TM0", "targets": [0, 1], "workers": [{"name": "W0", "skills": {"T0": 1.0, "T1": 1.0}, "cost": 1.0}]},
                            {"name": "TM1", "targets": tg1, "workers": [{"name": "W1", "skills": {"T0": 1.0, "T1": 1.0}, "cost": 1.0}]}]}
            out.append((sp, {"rule": "TSLACK", "max_time": 12}))
    # (d) facility side: facility skill / workplace targeting / worker facility-skill each in {missing, 0, 1}; fixed facility IDs; solo facilities
    tri = (None, 0.0, 1.0)
    for fsk, wfs in itertools.product(tri, repeat=2):
        for target in (False, True):
            for fixf, fixw in ((None, None), ([], None), (["F0"], None), (["F1"], None), (None, ["W1"]), (["F1"], ["W0"]), (None, [])):
                for solof in (False, True):
                    f0 = {"name": "F0", "skills": ({} if fsk is None else {"T0": fsk}), "solo": solof, "cost": 1.0}
                    f1 = {"name": "F1", "skills": {"T0": 1.0}, "cost": 1.0}
                    w0 = {"name": "W0", "skills": {"T0": 1.0}, "fskills": ({"F1": 1.0} if wfs is None else {"F0": wfs, "F1": 1.0}), "cost": 1.0}
                    w1 = {"name": "W1", "skills": {"T0": 1.0}, "fskills": {"F0": 1.0}, "cost": 1.0}
                    sp = {
                        "tasks": [{"name": "T0", "work": 4.0, "nf": True, "fixf": fixf, "fixw": fixw}],
                        "links": [],
                        "components": [{"name": "C0", "tasks": [0]}],
                        "workplaces": [
                            {"name": "WP0", "cap": 1.0, "targets": [0] if target else [], "facilities": [f0]},
                            {"name": "WP1", "cap": 1.0, "targets": [0], "facilities": [f1]},
                        ],
                        "teams": [{"name": "TM0", "targets": [0], "workers": [w0, w1]}],
                    }
                    out.append((sp, {"rule": "TSLACK", "max_time": 10}))
    for fixf, solo1, skill0 in itertools.product((None, ["F0"], ["F1"]), (False, True), (1.0, 2.0)):
        f0 = {"name": "Lathe", "id": "F0", "skills": {"T0": skill0}, "cost": 1.0}
        f1 = {"name": "Lathe", "id": "F1", "skills": {"T0": 1.5}, "solo": solo1, "cost": 1.0}
        ws = [{"name": "W%d" % i, "skills": {"T0": 1.0}, "fskills": {"Lathe": 1.0}, "cost": 1.0} for i in range(2)]
        for frule in ("SSP", "HSV"):
            sp = {"tasks": [{"name": "T0", "work": 4.0, "nf": True, "fixf": fixf, "frule": frule}], "links": [], "components": [{"name": "C0", "tasks": [0]}],
                  "workplaces": [{"name": "WP0", "cap": 1.0, "targets": [0], "facilities": [f0, f1]}], "teams": [{"name": "TM0", "targets": [0], "workers": ws}]}
            out.append((sp, {"rule": "TSLACK", "max_time": 10}))
    for sp in F.fac_specs(tier):
        out.append((sp, {"rule": "TSLACK", "max_time": F.seq_bound(sp) + 8}))
    # workers built without the skill keywords and filled in place afterwards: the one without a machine licence must not end up with his colleague's
    for order in ((0, 1), (1, 0)):
        ws = [{"name": "W0", "skills": {"T0": 1.0}, "fskills": {"F0": 1.0, "F1": 1.0}, "skills_inplace": True, "cost": 1.0}, {"name": "W1", "skills": {"T0": 1.0}, "skills_inplace": True, "cost": 1.0}]
        sp = {"tasks": [{"name": "T0", "work": 4.0, "nf": True}], "links": [], "components": [{"name": "C0", "tasks": [0]}],
              "workplaces": [{"name": "WP0", "cap": 1.0, "targets": [0], "facilities": [{"name": "F0", "skills": {"T0": 1.0}}, {"name": "F1", "skills": {"T0": 1.0}}]}],
              "teams": [{"name": "TM0", "targets": [0], "workers": [ws[i] for i in order]}]}
        out.append((sp, {"rule": "TSLACK", "max_time": 12}))
    for sp in F.same_name_task_specs():
        out.append((sp, {"rule": "TSLACK", "max_time": 14}))
    for sp in F.sectioned_workplace_specs() + F.id_namespace_specs() + F.stuck_component_specs() + F.named_machine_specs() + F.half_wired_workplace_specs() + F.stationed_worker_specs():
        for rule in ("TSLACK", "SPT"):
            out.append((sp, {"rule": rule, "max_time": F.seq_bound(sp) + 10}))
    if tier == "thorough":
        for fl in F.flows(3, ("FS", "SS"), (1, 2)):
            for lay in ("MIX", "TWOTEAM", "SOLO"):
                sp = F.with_teams(fl, lay)
                out.append((sp, {"rule": "TSLACK", "max_time": F.seq_bound(sp) + 8}))
    else:
        for fl in list(F.flows(3, ("FS",), (1, 2)))[::2]:
            for lay in ("MIX", "TWOTEAM"):
                sp = F.with_teams(fl, lay)
                out.append((sp, {"rule": "TSLACK", "max_time": F.seq_bound(sp) + 8}))
    return out


def run(tier, seed):
    H, D = (3, 1) if tier == "quick" else (3, 2)
    its = items(tier)
    col = stepcheck.explore(its, MONS, H, D, seed=seed)
    # models passed through literally (no exploration on top): resources with unsorted / repeated absence lists
    lit = [(sp, {"rule": r, "max_time": 20}) for sp in F.unsorted_absence_specs() for r in ("TSLACK", "SPT")]
    col.merge(stepcheck.explore(lit, MONS, 0, 0, seed=seed))
    # project-wide absence lists as a caller may write them: every sequence of <= 3 steps out of 0..4 (any order, repeated entries)
    seqs = F.absence_sequences(5, 3)
    lit2 = [(sp, {"rule": "TSLACK", "max_time": 24, "absence": list(s)}) for sp in F.absence_probe_models() for s in (seqs if tier == "thorough" else [q for q in seqs if len(q) != 2 or q[0] >= q[1]])]
    col.merge(stepcheck.explore(lit2, MONS, 0, 0, seed=seed))
    col.merge(stepcheck.explore(stepcheck.edited_items(), MONS, 0, 0, seed=seed))  # runs after an earlier run and an in-place model edit
    col.merge(stepcheck.explore(stepcheck.resumed_edit_items(("byhand-check-then-absent-1",), ks=(1,)) + stepcheck.resumed_edit_items(("byhand-check-then-absent-2",), ks=(2,))
                                + stepcheck.resumed_edit_items(("move-worker", "add-component"), ks=(1, 2)), MONS, 0, 0, seed=seed))  # edits at a stop, the availability helper called by hand before them
    col.merge(stepcheck.explore(F.scale_items(("TSLACK", "LPT", "SPT")), MONS, 0, 0, seed=seed))  # medium-sized models (10-14 tasks / workers / machines), long absence lists
    col.merge(stepcheck.explore(F.extra_items(("TSLACK", "LPT", "SPT"), calendars=True), MONS, 0, 0, seed=seed))  # other ways of building the object graph; continuations under a revised calendar
    meta = {
        "level": "model_checking",
        "rule": "(a) every 2x2 worker-task skill grid over {missing,0,1e-11,1}; (b) every team-targeting matrix of 2 teams x 2 tasks x solo flags; (c) all pairs of fixed "
        "worker-ID lists (None, [], singletons, pair, unknown ID) x solo patterns on 3 pooled workers; (d) facility skill x worker facility-skill over {missing,0,1} x workplace "
        "targeting x fixed facility IDs x solo facility; plus FAC and MIX/TWOTEAM flow families; each explored over all absence answers (project, each worker, each facility) "
        "up to horizon H with <= D non-default answers; non-trivial = distinct (model, worker, task) new-allocation events",
        "bounds": {"H": H, "D": D, "base_models": len(its), "literal_project_absence_lists(any order, repeats)": len(lit2)},
        "assumptions": ["eligibility is evaluated from the spec and the absence answer of the step, never through can_add_resources"],
    }
    if col.checks["c04.worker"] == 0 or col.checks["c04.pair"] == 0:
        meta["vacuous"] = "no allocation observed"
    return col, meta


def replay(v):
    return stepcheck.replay(v, MONS)
