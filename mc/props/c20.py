"""C20 - a sub-project task lasts exactly as long as the sub-project it stands for."""
import copy
import datetime
import itertools
import math
import os
import shutil
import tempfile
import warnings

from .. import engines, families as F, runner, spec as S
from pDESy.model.base_project import BaseProject

UNITS = (1, 2, 3, 5, 60)


def runner_read_only(project):
    from .. import runner

    return runner.read_only_calls(project)


def _ratio(u_sub, u_parent):
    """sub-project unit / parent unit, both as the timedelta objects hold them (microsecond resolution)"""
    return datetime.timedelta(minutes=u_sub).total_seconds() / datetime.timedelta(minutes=u_parent).total_seconds()


def make_sub(tmpdir, d, absence, how, unit_min, tag, post_insert=None, backward=False, paused=None):
    """a sub-project of pure duration d (one task, one worker), simulated as requested and saved"""
    sp = {"tasks": [{"name": "S0", "work": float(d)}], "links": [], "unit_min": unit_min,
          "teams": [{"name": "TM0", "targets": [0], "workers": [{"name": "SW0", "skills": {"S0": 1.0}, "cost": 1.0}]}]}
    if how == "all-done":
        sp["tasks"][0]["progress"] = 1.0  # every task complete from the start; the project is only initialised, never simulated (status NONE)
    m = S.build(sp)
    if how == "all-done":
        m.project.initialize()
    if how == "success" and paused is not None:
        # the sub-project's own run was stopped after `paused` steps and continued (same calendar, state and logs kept)
        m.project.simulate(max_time=paused, absence_time_list=list(absence))
        m.project.simulate(max_time=d + len(absence) + 20, absence_time_list=list(absence), initialize_state_info=False, initialize_log_info=False)
    elif how == "success" and backward:
        m.project.backward_simulate(max_time=d + len(absence) + 20, absence_time_list=list(absence))  # the sub-project was planned backwards (logs reversed into forward reading)
    elif how == "success":
        m.project.simulate(max_time=d + len(absence) + 20, absence_time_list=list(absence))
    elif how == "failure":
        m.project.simulate(max_time=max(0, d - 1), absence_time_list=list(absence))
    if post_insert:
        m.project.insert_absence_time_list(list(post_insert))  # e.g. a holiday entered after the sub-project had been simulated
    path = os.path.join(tmpdir, "sub-%s.json" % tag)
    m.project.write_simple_json(path)
    return path, m.project.time, int(m.project.status)


def parent_spec(position, path, u_parent, team_targets_sub=False):
    if position.endswith("-on-component"):
        # the sub-project task belongs to a component that has to be carried into a workplace before the task can start (the task itself needs no machine)
        sp = parent_spec(position[: -len("-on-component")], path, u_parent, team_targets_sub)
        si = [i for i, t in enumerate(sp["tasks"]) if t.get("sub") is not None][0]
        sp["components"] = [{"name": "C0", "tasks": [si], "space": 1.0}]
        sp["workplaces"] = [{"name": "WP0", "cap": 1.0, "targets": [si], "facilities": [{"name": "F0", "skills": {"SUB": 1.0}}]}]  # (a workplace only takes a component in when it is equipped for the task)
        return sp
    sub = {"name": "SUB", "work": 1.0, "sub": {"file_path": path}}
    if position == "unstaffed":
        return {"tasks": [sub], "links": [], "unit_min": u_parent, "teams": []}  # a parent project without any worker
    if position == "after-auto-pred-beside-long":
        # L0 keeps the only worker busy from step 0; A0 (automatic, 2 steps) -FS-> SUB: SUB becomes READY in a step in which nobody is free
        return {"tasks": [{"name": "L0", "work": 8.0}, {"name": "A0", "work": 2.0, "auto": True}, sub], "links": [[1, 2, "FS"]], "unit_min": u_parent,
                "teams": [{"name": "TM0", "targets": [0], "workers": [{"name": "W0", "skills": {"L0": 1.0}, "cost": 1.0}]}]}
    if position in ("beside-same-name-auto-first", "beside-same-name-auto-last"):
        # another automatic task that carries the same NAME as the sub-project task (IDs differ) becomes startable in the same step
        twin = {"name": "SUB", "id": "TWIN", "work": 3.0, "auto": True}
        return {"tasks": [twin, dict(sub, id="SUB")] if position.endswith("first") else [dict(sub, id="SUB"), twin], "links": [], "unit_min": u_parent, "teams": []}
    if position == "alone":
        tasks, links, tg = [sub], [], []
    elif position == "after-pred":
        tasks, links, tg = [{"name": "P0", "work": 2.0}, sub], [[0, 1, "FS"]], [0]
    elif position == "mixed-inputs":
        # C -FS-> B -SS-> SUB <-FS- A, SUB -FS-> Z; the SS link is declared before the FS link; A finishes long before B starts
        tasks = [{"name": "A0", "work": 1.0}, {"name": "C0", "work": 2.0}, {"name": "B0", "work": 2.0}, sub, {"name": "Z0", "work": 1.0}]
        links = [[1, 2, "FS"], [2, 3, "SS"], [0, 3, "FS"], [3, 4, "FS"]]
        names = ["A0", "C0", "B0", "Z0"]
        return {"tasks": tasks, "links": links, "unit_min": u_parent,
                "teams": [{"name": "TM0", "targets": [0, 1, 2, 4], "workers": [{"name": "W%d" % i, "skills": {n: 1.0}, "cost": 1.0} for i, n in enumerate(names)]}]}
    elif position == "after-ss-pred-extend":
        # P0 (work 3) -SS-> SUB, the link declared with extend_input_task_list([...], SS): SUB may start one step after P0 has started
        return {"tasks": [{"name": "P0", "work": 3.0}, sub], "links": [[0, 1, "SS"]], "link_api": "extend", "unit_min": u_parent,
                "teams": [{"name": "TM0", "targets": [0], "workers": [{"name": "W0", "skills": {"P0": 1.0}, "cost": 1.0}]}]}
    elif position == "two-tails":
        # P0 -> SUB (due 12) and P0 -> Q0 (due 9): two tail tasks with different due times (used with the backward run)
        tasks, links, tg = [{"name": "P0", "work": 2.0}, dict(sub, due=12), {"name": "Q0", "work": 1.0, "due": 9}], [[0, 1, "FS"], [0, 2, "FS"]], [0, 2]
    elif position == "before-succ":
        tasks, links, tg = [sub, {"name": "Q0", "work": 1.0}], [[0, 1, "FS"]], [1]
    else:  # beside a worked task
        tasks, links, tg = [{"name": "P0", "work": 3.0}, sub], [], [0]
    names = [t["name"] for t in tasks if "sub" not in t]
    skills = {n: 1.0 for n in names}
    if team_targets_sub:
        # the team is (needlessly) assigned to the sub-project task as well and a second, idle worker is skilled under its name
        tg = list(range(len(tasks)))
        return {"tasks": tasks, "links": links, "unit_min": u_parent,
                "teams": [{"name": "TM0", "targets": tg, "workers": [{"name": "W0", "skills": skills, "cost": 1.0}, {"name": "W1", "skills": {"SUB": 1.0}, "cost": 5.0}]}]}
    return {"tasks": tasks, "links": links, "unit_min": u_parent,
            "teams": [{"name": "TM0", "targets": tg, "workers": [{"name": "W0", "skills": skills, "cost": 1.0}]}]}


def attrs(t):
    return {k: (v if not isinstance(v, list) else list(v)) for k, v in t.__dict__.items() if k not in ("parent_workflow",)}


def one(tmpdir, d, absence, how, remove, u_sub, u_parent, position, tag, prior=None, via_json=False, parent_abs=None, extra=None):
    out = []
    post_insert = None
    if extra == "post-insert" and how == "success":
        # the oracle does not read the library's clock: a run of d working steps with the in-range absence steps has T0 steps;
        # inserting T0-1 and T0 (ascending) adds two more, both of which count as absence steps afterwards
        T0, done = 0, 0
        while done < d:  # walk the steps: d working steps, absence steps in between
            if T0 not in absence:
                done += 1
            T0 += 1
        post_insert = [T0 - 1, T0]
    path, sub_time, sub_status = make_sub(tmpdir, d, absence, how, u_sub, tag, post_insert, backward=(extra == "sub-backward"), paused=(2 if extra == "sub-paused" else None))
    if post_insert:
        absence = tuple(absence) + tuple(post_insert)
        sub_time = T0 + 2
    n_abs_in = len([a for a in set(absence) if a < sub_time])
    if prior is not None:
        # history: another sub-project task was configured from the very same file before (with flag `prior`)
        other = S.build(parent_spec("alone", path, u_parent)).byname["SUB"]
        with warnings.catch_warnings():
            warnings.simplefilter("ignore")
            other.set_all_attributes_from_json(remove_absence_time_list=prior)
    psp = parent_spec(position, path, u_parent, team_targets_sub=(extra == "team-targets-sub"))
    if extra == "link-late":
        psp = dict(psp, link_late=True)  # tasks registered successors-first, each linked to the tasks it waits for right after its own registration
    m = S.build(psp)
    t = m.byname["SUB"]
    before = attrs(t)
    with warnings.catch_warnings(record=True) as wlist:
        warnings.simplefilter("always")
        try:
            t.set_all_attributes_from_json(remove_absence_time_list=remove)
        except Exception as e:
            return [("C20:set_all_attributes_from_json-raised:%s:%s" % (how, type(e).__name__), {"error": repr(e)})], None
    if how != "success":
        after = attrs(t)
        if after != before:
            ch = sorted(k for k in set(before) | set(after) if before.get(k) != after.get(k))
            out.append(("C20:refused-configuration-changed-the-task:%s" % ",".join(ch), {"changed": ch}))
        if not any("not simulated" in str(w.message) for w in wlist):
            out.append(("C20:no-warning-when-sub-project-was-not-simulated-successfully", {"status": sub_status}))
        return out, None
    dur = sub_time - (n_abs_in if remove else 0)
    if abs(t.default_work_amount - dur) > 1e-9:
        out.append(("C20:work-amount-is-not-the-sub-project-duration" + (":absence-removed" if remove else ""), {"default_work_amount": t.default_work_amount, "expected": dur, "sub_time": sub_time, "absence": list(absence)}))
        return out, None
    MT = int(math.ceil(dur * _ratio(u_sub, u_parent))) + 60  # room for the whole sub-project plus predecessors, successors and absence steps
    if extra == "relate-twice":
        # the unit is related more than once on the same task object (another time grid first, the real one last)
        t.set_work_amount_progress_of_unit_step_time(datetime.timedelta(minutes=u_parent * 3))
        t.set_work_amount_progress_of_unit_step_time(datetime.timedelta(minutes=max(1, u_sub * 2)))
    t.set_work_amount_progress_of_unit_step_time(m.project.unit_timedelta)
    if via_json:
        # the configured parent is saved, loaded into a new project and related to the parent's unit again there
        path2 = os.path.join(tmpdir, "parent-%s.json" % tag)
        try:
            m.project.write_simple_json(path2)
            p2 = BaseProject()
            p2.read_simple_json(path2)
            m = S.adopt(p2)
            t = m.byname["SUB"]
            t.set_work_amount_progress_of_unit_step_time(m.project.unit_timedelta)
        except Exception as e:
            return out + [("C20:reload-of-configured-parent-raised:%s" % type(e).__name__, {"error": repr(e)})], None
    if parent_abs and extra == "flag-history":
        # an earlier run of the same parent object asked for automatic tasks to go on during absence; the run under test does not
        # (keyword left out): the sub-project task must stand still at absence steps and use `want` working steps
        try:
            m.project.simulate(max_time=MT, absence_time_list=list(parent_abs), perform_auto_task_while_absence_time=True)
            m.project.simulate(max_time=MT, absence_time_list=list(parent_abs))
        except Exception as e:
            return out + [("C20:parent-simulate-raised:%s" % type(e).__name__, {"error": repr(e)})], None
        rem = list(t.remaining_work_amount_record_list)
        start = 0
        if position == "after-pred":
            done, k = 0, 0
            while done < 2:
                if k not in parent_abs:
                    done += 1
                k += 1
            start = k
        want = int(math.ceil(dur * _ratio(u_sub, u_parent) - 1e-9))
        expect, k = [], start
        while len(expect) < want:
            if k not in parent_abs:
                expect.append(k)
            k += 1
        prog = [k for k in range(len(rem)) if (rem[k - 1] if k else float(dur)) - rem[k] > 1e-9]
        det = {"sub_duration": dur, "u_sub": u_sub, "u_parent": u_parent, "position": position, "parent_absence": list(parent_abs), "remaining_log": rem[:12], "progress_steps": prog, "expected_progress_steps": expect}
        if int(m.project.status) != 1:
            out.append(("C20:parent-did-not-complete", det))
        elif prog != expect:
            out.append(("C20:sub-project-task-progress-steps-wrong-after-an-earlier-flagged-run(keyword-omitted)", det))
        return out, want
    if parent_abs:
        # parent run with project-wide absence steps and the automatic-task flag set: the sub-project task (an automatic
        # task) progresses at every step from the one its dependencies allow, absence steps included
        try:
            m.project.simulate(max_time=MT, absence_time_list=list(parent_abs), perform_auto_task_while_absence_time=True)
        except Exception as e:
            return out + [("C20:parent-simulate-raised:%s" % type(e).__name__, {"error": repr(e)})], None
        rem = list(t.remaining_work_amount_record_list)
        rate = u_parent / float(u_sub)
        start = 0
        if position == "after-pred":
            # the predecessor (work 2, one worker) only works at non-absence steps
            done, k = 0, 0
            while done < 2:
                if k not in parent_abs:
                    done += 1
                k += 1
            start = k
        want = int(math.ceil(dur * _ratio(u_sub, u_parent) - 1e-9))
        prog = [k for k in range(len(rem)) if (rem[k - 1] if k else float(dur)) - rem[k] > 1e-9]
        det = {"sub_duration": dur, "u_sub": u_sub, "u_parent": u_parent, "position": position, "parent_absence": list(parent_abs), "remaining_log": rem[:12], "progress_steps": prog, "expected_start": start, "expected_steps": want}
        if int(m.project.status) != 1:
            out.append(("C20:parent-did-not-complete", det))
        elif prog != list(range(start, start + want)):
            out.append(("C20:sub-project-task-progress-steps-wrong-with-absence-and-auto-flag", det))
        return out, want
    if extra == "backward-due":
        # backward run with the due times of the tail tasks considered: the tail with the latest due time ends with the run
        try:
            m.project.backward_simulate(max_time=MT, considering_due_time_of_tail_tasks=True, absence_time_list=[])
        except Exception as e:
            return out + [("C20:parent-backward_simulate-raised:%s" % type(e).__name__, {"error": repr(e)})], None
        want = int(math.ceil(dur * _ratio(u_sub, u_parent) - 1e-9))
        log = [int(s) for s in t.state_record_list]
        ks = [k for k, s in enumerate(log) if s == S.T_WORKING]
        T = m.project.time
        det = {"sub_duration": dur, "u_sub": u_sub, "u_parent": u_parent, "log": log, "expected_steps": want, "time": T}
        if int(m.project.status) != 1:
            out.append(("C20:parent-did-not-complete", det))
        elif ks != list(range(T - want, T)):
            out.append(("C20:sub-project-task-not-at-the-end-of-the-backward-run(latest-due-tail)", det))
        return out, want
    if extra == "paused-parent-calendar":
        # the parent is stopped inside the sub-project task's run and continued with the same calendar, which has a day off before the stop and one after it
        want = int(math.ceil(dur * _ratio(u_sub, u_parent) - 1e-9))
        start = 0
        k = max(3, want // 2 + 1)
        cal = [1, k + 1]
        try:
            m.project.simulate(max_time=k, absence_time_list=list(cal))
            m.project.simulate(max_time=MT, absence_time_list=list(cal), initialize_state_info=False, initialize_log_info=False)
        except Exception as e:
            return out + [("C20:parent-simulate-raised:%s" % type(e).__name__, {"error": repr(e)})], None
        rem = list(t.remaining_work_amount_record_list)
        expect, i = [], start
        while len(expect) < want:
            if i not in cal:
                expect.append(i)
            i += 1
        prog = [i for i in range(len(rem)) if (rem[i - 1] if i else float(dur)) - rem[i] > 1e-9]
        det = {"sub_duration": dur, "u_sub": u_sub, "u_parent": u_parent, "position": position, "paused_at": k, "calendar": cal, "remaining_log": rem[:14], "progress_steps": prog, "expected_progress_steps": expect}
        if int(m.project.status) != 1:
            out.append(("C20:parent-did-not-complete", det))
        elif want >= 3 and prog != expect:
            out.append(("C20:sub-project-task-progress-steps-wrong-in-a-parent-run-stopped-and-continued-under-a-calendar", det))
        return out, want
    if extra == "looked-at-pause":
        want = int(math.ceil(dur * _ratio(u_sub, u_parent) - 1e-9))
        start = 2 if position == "after-pred" else 0
        k = start + max(1, want // 2)
        try:
            m.project.simulate(max_time=k, absence_time_list=[])
            runner_read_only(m.project)  # queries, chart data builders, printing at the stop
            m.project.simulate(max_time=MT, absence_time_list=[], initialize_state_info=False, initialize_log_info=False)
        except Exception as e:
            return out + [("C20:parent-simulate-raised:%s" % type(e).__name__, {"error": repr(e)})], None
        log = [int(s) for s in t.state_record_list]
        ks = [i for i, s in enumerate(log) if s == S.T_WORKING]
        det = {"sub_duration": dur, "u_sub": u_sub, "u_parent": u_parent, "position": position, "paused_at": k, "log": log, "expected_steps": want, "expected_start": start, "time": m.project.time}
        if want >= 2 and (ks != list(range(start, start + want)) or len(log) != m.project.time):
            out.append(("C20:sub-project-task-WORKING-steps-wrong-after-the-parent-was-looked-at-at-a-pause", det))
        return out, want
    if extra == "file-rewritten":
        # the sub-project is revised (twice as long) and saved to the SAME path; the task is configured again from it
        path2, sub_time2, _st2 = make_sub(tmpdir, 2 * d, absence, how, u_sub, tag)
        with warnings.catch_warnings():
            warnings.simplefilter("ignore")
            t.set_all_attributes_from_json(remove_absence_time_list=remove)
        n2 = len([a for a in set(absence) if a < sub_time2])
        dur2 = sub_time2 - (n2 if remove else 0)
        if path2 != path:
            out.append(("C20:harness-error-file-paths-differ", {"a": path, "b": path2}))
        elif abs(t.default_work_amount - dur2) > 1e-9:
            out.append(("C20:work-amount-not-updated-when-the-task-is-configured-again-from-a-revised-file", {"default_work_amount": t.default_work_amount, "expected": dur2}))
        return out, None
    if extra == "reconfigure-at-pause":
        want = int(math.ceil(dur * _ratio(u_sub, u_parent) - 1e-9))
        start = 2 if position == "after-pred" else 0
        k = start + max(1, want // 2)
        try:
            m.project.simulate(max_time=k, absence_time_list=[])
            with warnings.catch_warnings():
                warnings.simplefilter("ignore")
                t.set_all_attributes_from_json(remove_absence_time_list=remove)  # configuring is idempotent and leaves the run's state alone
            t.set_work_amount_progress_of_unit_step_time(m.project.unit_timedelta)
            m.project.simulate(max_time=MT, absence_time_list=[], initialize_state_info=False, initialize_log_info=False)
        except Exception as e:
            return out + [("C20:parent-simulate-raised:%s" % type(e).__name__, {"error": repr(e)})], None
        log = [int(s) for s in t.state_record_list]
        ks = [i for i, s in enumerate(log) if s == S.T_WORKING]
        det = {"sub_duration": dur, "u_sub": u_sub, "u_parent": u_parent, "position": position, "paused_at": k, "log": log, "expected_steps": want, "expected_start": start}
        if want >= 2 and ks != list(range(start, start + want)):
            out.append(("C20:sub-project-task-WORKING-steps-wrong-after-configuring-it-again-at-a-pause", det))
        return out, want
    if extra == "failed-backward":
        # a backward run that is refused with an exception (undocumented task_performed_mode) precedes the forward run
        try:
            m.project.backward_simulate(task_performed_mode="single-worker", max_time=MT)
        except Exception:
            pass
    try:
        m.project.simulate(max_time=MT, absence_time_list=[])
    except Exception as e:
        return out + [("C20:parent-simulate-raised:%s" % type(e).__name__, {"error": repr(e)})], None
    want = int(math.ceil(dur * _ratio(u_sub, u_parent) - 1e-9))
    log = [int(s) for s in t.state_record_list]
    ks = [k for k, s in enumerate(log) if s == S.T_WORKING]
    start = 2 if position in ("after-pred", "after-pred-on-component", "after-auto-pred-beside-long", "after-auto-pred-beside-long-on-component") else 0
    if position == "after-ss-pred-extend":
        start = 1
    if position == "mixed-inputs":
        # as soon as the dependencies allow: the step after the SS predecessor's first WORKING step, and after the FS predecessor has finished
        lb = [int(s) for s in m.byname["B0"].state_record_list]
        la = [int(s) for s in m.byname["A0"].state_record_list]
        b_start = min([k for k, s in enumerate(lb) if s == S.T_WORKING] or [10 ** 6])
        a_fin = min([k for k, s in enumerate(la) if s == S.T_FINISHED] or [10 ** 6])
        start = max(b_start + 1, a_fin)
    det = {"sub_duration": dur, "u_sub": u_sub, "u_parent": u_parent, "position": position, "log": log, "expected_steps": want, "expected_start": start}
    if int(m.project.status) != 1:
        out.append(("C20:parent-did-not-complete", det))
    elif len(ks) != want or (ks and ks != list(range(ks[0], ks[0] + len(ks)))):
        out.append(("C20:sub-project-task-WORKING-steps-not-ceil(duration*unit-ratio)", det))
    elif ks and ks[0] != start:
        out.append(("C20:sub-project-task-did-not-start-when-dependencies-allowed", det))
    if any(w for w in t.allocated_worker_id_record if w):
        out.append(("C20:sub-project-task-was-given-workers", {"workers": t.allocated_worker_id_record}))
    if extra == "team-targets-sub" and any(int(s) == S.R_WORKING for s in m.byname["W1"].state_record_list):
        out.append(("C20:worker-busy-on-the-sub-project-task", {"W1_states": [int(s) for s in m.byname["W1"].state_record_list]}))
    if position == "before-succ" and ks:
        q = [int(s) for s in m.byname["Q0"].state_record_list]
        if any(s == S.T_WORKING for s in q[: ks[-1] + 1]):
            out.append(("C20:successor-started-before-sub-project-task-finished", {"sub_log": log, "succ_log": q}))
    return out, want


def one_chain(tmpdir, d, u_sub, u_parent, n, tag):
    """n sub-project tasks configured from one saved result, FF-chained against their list order (S_i waits for S_i+1): all run out of work in the same
    step and have to be finished in that step, one after the other"""
    out = []
    path, sub_time, sub_status = make_sub(tmpdir, d, (), "success", u_sub, tag)
    tasks = [{"name": "SUB%d" % i, "work": 1.0, "sub": {"file_path": path}} for i in range(n)]
    sp = {"tasks": tasks, "links": [[i + 1, i, "FF"] for i in range(n - 1)], "unit_min": u_parent, "teams": []}
    m = S.build(sp)
    for t in m.tasks:
        t.set_all_attributes_from_json(remove_absence_time_list=False)
        t.set_work_amount_progress_of_unit_step_time(m.project.unit_timedelta)
    want = int(math.ceil(d * _ratio(u_sub, u_parent) - 1e-9))
    try:
        m.project.simulate(max_time=want + 30, absence_time_list=[])
    except Exception as e:
        return [("C20:parent-simulate-raised:%s" % type(e).__name__, {"error": repr(e)})], want
    bad = []
    for t in m.tasks:
        ks = [k for k, s in enumerate(int(s_) for s_ in t.state_record_list) if s == S.T_WORKING]
        if ks != list(range(0, want)):
            bad.append((t.ID, ks))
    if bad or int(m.project.status) != 1:
        out.append(("C20:sub-project-task-WORKING-steps-not-ceil(duration*unit-ratio):FF-chain-of-%d" % n, {"expected_steps": want, "tasks_with_other_steps": bad[:4], "time": m.project.time}))
    return out, want


def work(chunk):
    col = engines.Collector()
    tmpdir = tempfile.mkdtemp(prefix="verif-c20-")
    try:
        for case in chunk:
            d, absence, how, remove, u_sub, u_parent, position, prior = case[:8]
            via_json = bool(case[8]) if len(case) > 8 else False
            parent_abs = case[9] if len(case) > 9 else None
            extra = case[10] if len(case) > 10 else None
            tag = "%d" % os.getpid()
            if position == "ff-chain":
                got, want = one_chain(tmpdir, d, u_sub, u_parent, int(extra), tag)
            else:
                got, want = one(tmpdir, d, absence, how, remove, u_sub, u_parent, position, tag, prior, via_json, parent_abs, extra)
            key = (d, tuple(absence), how, remove, u_sub, u_parent, position, prior, via_json, tuple(parent_abs) if parent_abs else None, extra)
            col.evaluations += 1
            col.checks["c20." + how] += 1
            col.states.add(hash(key))
            col.transitions.add(hash(key))
            if how == "success" and u_sub != u_parent:
                col.nontrivial.add(hash(key))
            col.outcomes[want] += 1
            for sig, det in got:
                col.violation({"property": "C20", "sig": sig, "kind": "grid", "case": list(key), "detail": det})
            if len(col.samples) < 3:
                col.samples.append({"sub_duration": d, "sub_absence": list(absence), "saved": how, "remove_absence": remove, "u_sub_min": u_sub, "u_parent_min": u_parent, "position": position, "expected_steps": want})
    finally:
        shutil.rmtree(tmpdir, ignore_errors=True)
    return col


def items(tier):
    out = []
    durs = (1, 2, 3, 4) if tier == "quick" else (1, 2, 3, 4, 5, 6)
    positions = ("alone", "after-pred", "before-succ", "beside")
    units = UNITS
    for d in durs:
        abss = [(), (0,), (1,), (0, d + 9)] if tier == "quick" else [(), (0,), (1,), (0, 1), (d + 9,), (0, d + 9), (1, 1)]
        for ab in abss:
            for remove in (True, False):
                for us, up in itertools.product(units, repeat=2):
                    for pos in positions:
                        if tier == "quick" and pos in ("before-succ", "beside") and (us, up) not in ((1, 1), (2, 3), (5, 2), (60, 1), (1, 60)):
                            continue
                        out.append((d, ab, "success", remove, us, up, pos, None))
                # the same saved file configured twice, with every pair of flags
                for prior in (True, False):
                    out.append((d, ab, "success", remove, 1, 1, "alone", prior))
                    out.append((d, ab, "success", remove, 3, 2, "after-pred", prior))
        # every absence calendar with <= 4 absence steps inside the sub-project's run (the last step of a run is a working step), absence removed
        if d <= 4:
            for k in range(2, 5):
                for ab in itertools.combinations(range(d + k - 1), k):
                    for us, up in ((1, 1), (2, 3)):
                        out.append((d, ab, "success", True, us, up, "alone", None))
        # day-sized and 36-hour units; the configured parent saved, loaded and related again; parent runs with absence steps
        for us, up in ((1440, 60), (1440, 360), (2160, 360), (60, 1440), (1440, 1440)):
            for pos in ("alone", "after-pred"):
                out.append((d, (), "success", True, us, up, pos, None))
                out.append((d, (), "success", True, us, up, pos, None, True))
        for us, up in ((1, 1), (3, 2), (2, 3), (60, 20)):
            for pos in ("alone", "after-pred", "before-succ"):
                out.append((d, (1,), "success", False, us, up, pos, None, True))
            for pabs in ((0, 1), (0, 1, 4, 5), (2,)):
                for pos in ("alone", "after-pred"):
                    out.append((d, (), "success", True, us, up, pos, None, False, pabs))
        for us, up in ((1, 1), (2, 2), (3, 2), (2, 3), (5, 5)):
            for pos in ("alone", "after-pred", "beside"):
                out.append((d, (), "success", True, us, up, pos, None, False, None, "team-targets-sub"))
                out.append((d, (), "success", True, us, up, pos, None, False, None, "relate-twice"))
        for us, up in ((1, 1), (3, 2), (2, 3)):
            for pabs in ((1,), (0, 3), (2, 3)):
                for pos in ("alone", "after-pred"):
                    out.append((d, (), "success", True, us, up, pos, None, False, pabs, "flag-history"))
            for ab in ((), (0,)):  # (lists naming steps the run never reached are left out here: what an insert does to them is C18's subject)
                for remove in (True, False):
                    out.append((d, ab, "success", remove, us, up, "alone", None, False, None, "post-insert"))
        for us, up in ((1, 1), (3, 2), (2, 3)):
            for pos in ("mixed-inputs",):
                for remove in (True, False):
                    out.append((d, (1,), "success", remove, us, up, pos, None))
            for pos in ("after-pred", "before-succ", "mixed-inputs"):
                out.append((d, (), "success", True, us, up, pos, None, False, None, "failed-backward"))
            for pos in ("alone", "after-pred"):
                out.append((max(d, 2) * 2, (), "success", True, us, up, pos, None, False, None, "reconfigure-at-pause"))
            out.append((max(d, 3) * 2, (), "success", True, us, up, "alone", None, False, None, "paused-parent-calendar"))
            for pos in ("alone", "after-pred"):
                out.append((max(d, 2) * 2, (), "success", True, us, up, pos, None, False, None, "looked-at-pause"))
            for ab in ((), (1,)):
                for remove in (True, False):
                    out.append((d, ab, "success", remove, us, up, "alone", None, False, None, "file-rewritten"))
            out.append((max(d, 3) * 3, (), "success", False, us, up, "alone", None, False, None, "paused-parent-calendar"))
        if d == durs[-1]:
            for dl in (101, 150, 240):  # very long sub-projects on unit ratios without a finite binary expansion (300 to 1000 parent steps: rounding may not add up)
                for us, up in ((3, 1), (7, 1), (9, 4), (7, 3), (11, 1), (1, 1)):
                    for pos in ("alone", "after-pred"):
                        out.append((dl, (), "success", True, us, up, pos, None))
            for dl in (12, 25, 37):  # long sub-projects with a long calendar
                for ab in ((), (1, 2, 3, 10, 11, 20, 21, 22, 23, 30), tuple(range(0, 40, 3))):
                    for remove in (True, False):
                        for us, up in ((1, 1), (3, 2), (2, 5)):
                            out.append((dl, ab, "success", remove, us, up, "after-pred", None))
        for us, up in ((1, 1), (3, 2), (2, 3)):
            out.append((d, (), "success", True, us, up, "after-ss-pred-extend", None))
        # units that are not whole numbers of minutes (an hour divided by 7, by 3; 90 seconds): durations on and off the parent's step boundaries
        for us, up in ((60.0 / 7, 60), (20.0 / 3, 20), (1.5, 1), (60.0 / 7, 60.0 / 7), (60, 60.0 / 7)):
            for dd in (d, 7 * d):
                out.append((dd, (), "success", True, us, up, "alone", None))
                out.append((dd, (), "success", True, us, up, "after-pred", None))
        for us, up in ((1, 1), (3, 2), (2, 3)):
            out.append((d, (), "success", True, us, up, "two-tails", None, False, None, "backward-due"))
            for nchain in (3, 8, 9, 11):
                out.append((d, (), "success", False, us, up, "ff-chain", None, False, None, str(nchain)))
        for us, up in ((1, 1), (3, 2), (2, 3)):
            for pos in ("alone-on-component", "after-pred-on-component", "beside-on-component", "unstaffed", "unstaffed-on-component", "after-auto-pred-beside-long", "after-auto-pred-beside-long-on-component"):
                out.append((d, (), "success", True, us, up, pos, None))
        for us, up in ((1, 1), (3, 2)):
            for pos in ("beside-same-name-auto-first", "beside-same-name-auto-last"):
                out.append((d, (), "success", True, us, up, pos, None))
        for ab in ((0,), (1,), (0, 1), (0, 3), (1, d + 5)):
            for remove in (True, False):
                out.append((d, ab, "success", remove, 1, 1, "alone", None, False, None, "sub-paused"))
                out.append((d, ab, "success", remove, 3, 2, "after-pred", None, False, None, "sub-paused"))
        for us, up in ((1, 1), (3, 2), (2, 3)):
            for pos in ("after-pred", "before-succ", "mixed-inputs", "beside"):
                out.append((d, (), "success", True, us, up, pos, None, False, None, "link-late"))
        # the saved sub-project result comes from a backward run whose calendar also names steps beyond its end
        for ab in ((1,), (0, d + 9), (1, d + 3, d + 4), (d + 2,)):
            for remove in (True, False):
                for us, up in ((1, 1), (3, 2)):
                    out.append((d, ab, "success", remove, us, up, "alone" if us == 1 else "after-pred", None, False, None, "sub-backward"))
        for how in ("failure", "never", "all-done"):
            for remove in (True, False):
                out.append((d, (), how, remove, 1, 1, "alone", None))
                out.append((d, (0,), how, remove, 2, 3, "after-pred", None))
                out.append((d, (0,), how, remove, 2, 3, "after-pred", True))
    return out


def run(tier, seed):
    its = items(tier)
    col = engines.fanout(its, work, seed=seed)
    meta = {
        "level": "exploration",
        "rule": "exhaustive grid: sub-projects of duration 1..%d x absence lists (none, step 0, step 1, consecutive, duplicated, beyond the end; every calendar of 2-4 absence steps inside the run when absence is removed) saved after success / after FAILURE / never simulated "
        "x remove_absence_time_list x every ordered pair of unit times from {1,2,3,5,60} min x position of the sub-project task in the parent (alone, after an FS predecessor, before a successor, beside a worked task) x history (first use of the saved file, or after another task was "
        "configured from the same file with either flag) x (the configured parent used directly, or saved, loaded and related again; units up to 36 hours) x (parent without absence, or with "
        "project-wide absence steps and the automatic-task flag set) x (team also assigned to the sub-project task with a worker skilled under its name; unit related several times, the real one last; sub-project result extended by insert_absence_time_list before saving; an earlier flagged run of the same parent followed by a run that omits the flag); "
        "oracle: work amount = duration (minus in-range absence steps if requested), WORKING for exactly ceil(duration*u_sub/u_parent) consecutive parent steps from the step dependencies allow, no workers, "
        "successor waits; refusal (warning, task unchanged) for unsuccessful/never simulated sub-projects; non-trivial = successful grid points with different unit times" % (4 if tier == "quick" else 6),
        "bounds": {"grid_points": len(its)},
        "assumptions": ["the sub-project has a pure duration (one task, one unit-skill worker) so that its length is known without simulating"],
    }
    return col, meta


def replay(v):
    tmpdir = tempfile.mkdtemp(prefix="verif-c20-")
    try:
        c = list(v["case"]) + [False, None, None]
        d, ab, how, remove, us, up, pos, prior, vj, pabs, extra = c[:11]
        if pos == "ff-chain":
            got, want = one_chain(tmpdir, d, us, up, int(extra), "replay")
        else:
            got, want = one(tmpdir, d, tuple(ab), how, remove, us, up, pos, "replay", prior, bool(vj), tuple(pabs) if pabs else None, extra)
        return [{"sig": s, "detail": dd} for s, dd in got]
    finally:
        shutil.rmtree(tmpdir, ignore_errors=True)
