"""C18 - editing absence steps out of / into finished logs keeps all logs aligned."""
import collections
import itertools
import json
import os
import shutil
import tempfile

from .. import engines, families as F, runner, spec as S
from . import c08

TOL = 1e-9


def base_models(tmpdir):
    out = [(sp, "m%d" % i) for i, sp in enumerate(c08.base_models())]
    half = F.with_teams({"tasks": [{"name": "T0", "work": 4.0, "progress": 0.5}, {"name": "T1", "work": 4.0, "progress": 0.25}, {"name": "T2", "work": 1.0, "progress": 1.0}], "links": [[0, 1, "SS"]]}, "POOL2")
    out.append((half, "partly-done"))
    out.append((F.waiting_component_spec(), "waiting-component"))  # a component that is WORKING, then READY (its next task waits for a worker), then WORKING again
    out.append((F.idle_component_spec(), "idle-component"))
    emp = F.with_teams({"tasks": [{"name": "T0", "work": 2.0}, {"name": "T1", "work": 1.0}], "links": [[0, 1, "FS"]]}, "POOL2")
    emp["teams"] = emp["teams"] + [{"name": "TMX", "targets": [], "workers": []}]
    emp["workplaces"] = [{"name": "WPX", "cap": 1.0, "targets": [], "facilities": []}]
    out.append((emp, "empty-team-and-workplace"))
    done = F.with_teams({"tasks": [{"name": "T0", "work": 2.0, "progress": 1.0}, {"name": "T1", "work": 1.0, "progress": 1.0}], "links": [[0, 1, "FS"]]}, "POOL1")
    out.append((done, "everything-done-from-the-start"))  # a result of length zero
    out += [(sp, sp["label"]) for sp in F.scale_specs() if sp["label"] in ("scale:8components",)]
    wheels = dict(F.with_teams({"tasks": [{"name": "T0", "work": 2.0}, {"name": "T1", "work": 3.0}, {"name": "T2", "work": 1.0}], "links": [[0, 2, "FS"], [1, 2, "FS"]]}, "POOL2"),
                  components=[{"name": "bolt", "id": "bolt-1", "tasks": [0]}, {"name": "bolt", "id": "bolt-2", "tasks": [1]}, {"name": "plate", "tasks": [2]}], value_eq_components=True)
    out.append((wheels, "equal-parts-of-a-user-subclass"))  # two parts that compare equal (same part name), each with a log of its own
    long_ = F.with_teams({"tasks": [{"name": F.tname(i), "work": 10.0} for i in range(30)], "links": [[i, i + 1, "FS"] for i in range(29)]}, "POOL1")
    long_["sim_max_time"] = 330
    out.append((long_, "long-run-300"))  # a result of 300 steps (step numbers beyond the interpreter's cache of small integers)
    # a parent project with a sub-project task (configured from a saved, successfully simulated project)
    sub = F.with_teams({"tasks": [{"name": "T0", "work": 2.0}, {"name": "T1", "work": 1.0}], "links": [[0, 1, "FS"]]}, "POOL1")
    m = S.build(sub)
    m.project.simulate(max_time=30, absence_time_list=[])
    path = os.path.join(tmpdir, "sub.json")
    m.project.write_simple_json(path)
    parent = {"tasks": [{"name": "T0", "work": 1.0}, {"name": "S1", "work": 1.0, "sub": {"file_path": path}}, {"name": "T2", "work": 1.0}], "links": [[0, 1, "FS"], [1, 2, "FS"]],
              "teams": [{"name": "TM0", "targets": [0, 2], "workers": [{"name": "W0", "skills": {"T0": 1.0, "T2": 1.0}, "cost": 1.0}]}], "subproject_setup": True}
    out.append((parent, "subproject"))
    return out


def start_project(spec, sim_absence):
    backward = False
    if sim_absence and sim_absence[0] == "back":
        backward, sim_absence = True, sim_absence[1:]
    m = S.build(spec)
    if spec.get("subproject_setup"):
        for t in m.tasks:
            if hasattr(t, "set_all_attributes_from_json") and t.file_path:
                t.set_all_attributes_from_json(remove_absence_time_list=False)
                t.set_work_amount_progress_of_unit_step_time(m.project.unit_timedelta)
    if sim_absence and sim_absence[0] == "looked-at":
        # a run cut after three steps (tasks still READY / WORKING) and looked at through every read-only helper before the edits
        m.project.simulate(max_time=3, absence_time_list=list(sim_absence[1:]))
        runner.read_only_calls(m.project)
    elif sim_absence and sim_absence[0] == "revised":
        # a run stopped at step 2 whose first part was planned with the holiday sim_absence[1:] (all of it after the stop); the continuation cancels it
        m.project.simulate(max_time=2, absence_time_list=list(sim_absence[1:]))
        m.project.simulate(max_time=spec.get("sim_max_time", 40), absence_time_list=[], initialize_state_info=False, initialize_log_info=False)
    elif sim_absence and sim_absence[0] == "resumed":
        # a run stopped at step 2 and continued with state and logs kept
        m.project.simulate(max_time=2, absence_time_list=list(sim_absence[1:]))
        m.project.simulate(max_time=spec.get("sim_max_time", 40), absence_time_list=list(sim_absence[1:]), initialize_state_info=False, initialize_log_info=False)
    elif backward:
        m.project.backward_simulate(max_time=spec.get("sim_max_time", 40), absence_time_list=list(sim_absence))
    else:
        m.project.simulate(max_time=spec.get("sim_max_time", 40), absence_time_list=list(sim_absence))
    return m


def logs(m):
    d = S.dump(m, live=False)
    d["absence"] = [int(x) for x in d["absence"]]  # (indices given as numpy integers are the same indices)
    return d


def all_logs(m):
    """name -> the log list itself"""
    p = m.project
    L = {"project.cost_list": p.cost_list, "organization.cost_list": p.organization.cost_list}
    for t in p.workflow.task_list:
        L["task %s state" % t.ID] = t.state_record_list
        L["task %s remaining" % t.ID] = t.remaining_work_amount_record_list
        L["task %s workers" % t.ID] = t.allocated_worker_id_record
        L["task %s facilities" % t.ID] = t.allocated_facility_id_record
    for c in p.product.component_list:
        L["component %s state" % c.ID] = c.state_record_list
        L["component %s placed" % c.ID] = c.placed_workplace_id_record
    for team in p.organization.team_list:
        L["team %s cost" % team.ID] = team.cost_list
        for w in team.worker_list:
            L["worker %s state" % w.ID] = w.state_record_list
            L["worker %s cost" % w.ID] = w.cost_list
            L["worker %s tasks" % w.ID] = w.assigned_task_id_record
    for wp in p.organization.workplace_list:
        L["workplace %s cost" % wp.ID] = wp.cost_list
        L["workplace %s placed" % wp.ID] = wp.placed_component_id_record
        for f in wp.facility_list:
            L["facility %s state" % f.ID] = f.state_record_list
            L["facility %s cost" % f.ID] = f.cost_list
            L["facility %s tasks" % f.ID] = f.assigned_task_id_record
    return L


def classify_indices(idx, present, n):
    tags = []
    if any(i == 0 for i in idx):
        tags.append("step0")
    if any(i >= n for i in idx):
        tags.append("beyond-end")
    if len(set(idx)) != len(idx):
        tags.append("duplicate")
    if any(i in present for i in idx):
        tags.append("already-present")
    return "+".join(tags) if tags else "in-range"


def kind_of_log(name):
    parts = name.split(" ")
    return parts[0] + ("-sub" if parts[0] == "task" and parts[1].startswith("S") else "") + " " + parts[-1]


def apply_and_check(m, op, spec):
    """apply one edit; return list of (sig, detail)"""
    out = []
    p = m.project
    before = {k: len(v) for k, v in all_logs(m).items()}
    t_before = p.time
    present = set(p.absence_time_list)
    n = t_before
    tag = classify_indices(op[1], present, n) if op[0] == "insert" else classify_indices(sorted(present), set(), n).replace("step0", "").strip("+") or "in-range"
    rem_before = {t.ID: list(t.remaining_work_amount_record_list) for t in p.workflow.task_list}
    try:
        if op[0] == "insert":
            lst = [int(str(x)) for x in op[1]]  # indices as a caller computes them: every entry an int object of its own (equal values are not the same object beyond CPython's small-int cache)
            if len(op) > 2 and op[2] == "np":
                import numpy

                lst = [numpy.int64(x) for x in lst]  # the index list comes from a numpy computation
            p.insert_absence_time_list(lst)
        else:
            p.remove_absence_time_list()
    except Exception as e:
        import traceback

        tb = traceback.extract_tb(e.__traceback__)
        site = [f for f in tb if "/pDESy/" in f.filename]
        where = "%s:%s" % (site[-1].filename.split("/pDESy/")[-1], site[-1].name) if site else "?"
        out.append(("C18:%s-raised:%s@%s[%s]" % (op[0], type(e).__name__, where, tag), {"op": op, "error": repr(e)}))
        return out, True
    after = {k: len(v) for k, v in all_logs(m).items()}
    delta = collections.defaultdict(list)
    for k in after:
        delta[after[k] - before[k]].append(k)
    if len(delta) != 1:
        common = max(delta, key=lambda d: len(delta[d]))
        odd = sorted(set(kind_of_log(nm) for d, names in delta.items() if d != common for nm in names))
        out.append(("C18:%s-changed-logs-by-different-counts[%s]:%s" % (op[0], tag, ",".join(odd)[:120]),
                    {"op": op, "deltas": {str(d): sorted(names)[:6] for d, names in delta.items()}}))
    lens = set(after.values())
    if len(lens) == 1 and p.time not in lens:
        out.append(("C18:%s-time-not-common-log-length[%s]" % (op[0], tag), {"op": op, "time": p.time, "length": sorted(lens), "time_before": t_before}))
    if op[0] == "insert" and len(delta) == 1:
        # inserted steps are no-work, zero-cost steps
        new = sorted(set(i for i in op[1] if i not in present))
        inserted = [i for i in new if i < p.time]
        d = list(delta)[0]
        if d == len(inserted):
            for i in inserted:
                for nm, lst in all_logs(m).items():
                    if nm.endswith("cost") or nm.endswith("cost_list"):
                        if i < len(lst) and lst[i] != 0.0:
                            out.append(("C18:inserted-step-has-cost[%s]" % tag, {"op": op, "log": nm, "index": i, "value": lst[i]}))
                for t in p.workflow.task_list:
                    sl, rl = t.state_record_list, t.remaining_work_amount_record_list
                    if i < len(sl) and int(sl[i]) == S.T_WORKING:
                        out.append(("C18:inserted-step-logs-task-WORKING[%s]" % tag, {"op": op, "task": t.ID, "index": i}))
                    if 0 < i < len(rl) and abs(rl[i] - rl[i - 1]) > TOL:
                        out.append(("C18:inserted-step-shows-progress[%s]" % tag, {"op": op, "task": t.ID, "index": i, "rem": rl[max(0, i - 1): i + 1]}))
                    if i == 0 and rl and not isinstance(t, S.BaseSubProjectTask):
                        init = t.default_work_amount * (1.0 - t.default_progress)
                        if abs(rl[0] - init) > TOL:
                            out.append(("C18:inserted-step-0-remaining-work-is-not-the-initial-one[%s]" % tag, {"op": op, "task": t.ID, "logged": rl[0], "initial": init}))
                for c in p.product.component_list:
                    if i < len(c.state_record_list) and int(c.state_record_list[i]) == S.C_WORKING:
                        out.append(("C18:inserted-step-logs-component-WORKING[%s]" % tag, {"op": op, "component": c.ID, "index": i, "log": [int(s) for s in c.state_record_list]}))
                for r in [w for tm in p.organization.team_list for w in tm.worker_list] + [f for wp in p.organization.workplace_list for f in wp.facility_list]:
                    if i < len(r.state_record_list) and int(r.state_record_list[i]) == S.R_WORKING:
                        out.append(("C18:inserted-step-logs-resource-WORKING[%s]" % tag, {"op": op, "resource": r.ID, "index": i}))
                    if i == 0 and r.assigned_task_id_record and r.assigned_task_id_record[0]:
                        out.append(("C18:inserted-step-0-shows-an-assignment[%s]" % tag, {"op": op, "resource": r.ID, "assigned": r.assigned_task_id_record[0]}))
                if i == 0:
                    for t in p.workflow.task_list:
                        if (t.allocated_worker_id_record and t.allocated_worker_id_record[0]) or (t.allocated_facility_id_record and t.allocated_facility_id_record[0]):
                            out.append(("C18:inserted-step-0-shows-an-allocation[%s]" % tag, {"op": op, "task": t.ID}))
    return out, False


def load_free(m, spec):
    """read the saved absence-free result of the same model into the project object at hand; returns (model, reference logs)"""
    ref = start_project(spec, ())
    fd, path = tempfile.mkstemp(prefix="verif-c18-", suffix=".json")
    os.close(fd)
    try:
        ref.project.write_simple_json(path)
        m.project.read_simple_json(path)
    finally:
        os.unlink(path)
    return S.adopt(m.project), logs(ref)


def replay_history(spec, sim_absence, hist):
    m = start_project(spec, sim_absence)
    viol = []
    free = False  # the project holds a result known to be absence-free (just read from a file written by an absence-free run)
    for k, op in enumerate(hist):
        if op[0] == "load-free":
            try:
                m, ref_logs = load_free(m, spec)
            except Exception as e:
                viol.append(("C18:reading-a-saved-result-into-a-used-project-raised:%s" % type(e).__name__, {"k": k, "op": op, "error": repr(e)}))
                return m, viol, True
            free = True
            continue
        if op[0] == "grow":
            # the organization grows (a new team with a worker, a new workplace with a machine) and the project is simulated afresh
            from pDESy.model.base_facility import BaseFacility
            from pDESy.model.base_team import BaseTeam
            from pDESy.model.base_worker import BaseWorker
            from pDESy.model.base_workplace import BaseWorkplace

            try:
                tm = BaseTeam(name="TMG", ID="TMG")
                tm.add_worker(BaseWorker(name="WG", ID="WG", cost_per_time=1.0))
                wp = BaseWorkplace(name="WPG", ID="WPG")
                wp.add_facility(BaseFacility(name="FG", ID="FG", cost_per_time=1.0))
                m.project.organization.team_list.append(tm)
                m.project.organization.workplace_list.append(wp)
                m.project.simulate(max_time=40, absence_time_list=[a for a in sim_absence if isinstance(a, int)])
                m = S.adopt(m.project)
            except Exception as e:
                viol.append(("C18:simulating-again-after-the-organization-grew-raised:%s" % type(e).__name__, {"k": k, "op": op, "error": repr(e)}))
                return m, viol, True
            free = False
            continue
        if free and op[0] == "remove":
            before = logs(m)
            got, dead = apply_and_check(m, op, spec)
            after = logs(m) if not dead else None
            for sig, det in got:
                det["k"] = k
                viol.append((sig, det))
            if not dead:
                before.pop("absence", None)  # (the bookkeeping list itself is not a log)
                after.pop("absence", None)
            if not dead and after != before:
                d = c10_diff(before, after)
                viol.append(("C18:remove-changed-an-absence-free-result(read-from-JSON-into-a-used-project):%s" % (d[0][0] if d else "?"), {"k": k, "op": op, "first_difference(path, before, after)": d}))
            if dead:
                return m, viol, True
            continue
        # (a "revised" start state is absence-free by what was DECLARED: the holiday lay after the stop and was cancelled - whatever list the project keeps)
        declared_free = k == 0 and bool(sim_absence) and sim_absence[0] == "revised" and all(a >= 2 for a in sim_absence[1:])
        base = logs(m) if (op[0] == "insert" and (free or declared_free or not m.project.absence_time_list)) else None
        free = False
        got, dead = apply_and_check(m, op, spec)
        for sig, det in got:
            det["k"] = k
            viol.append((sig, det))
        if dead:
            return m, viol, True
        # round trip: insert into an absence-free result, then remove
        if base is not None and k + 1 < len(hist) and hist[k + 1][0] == "remove" and not got:
            got2, dead2 = apply_and_check(m, hist[k + 1], spec)
            for sig, det in got2:
                det["k"] = k + 1
                viol.append((sig, det))
            if not dead2 and not got2:
                back = logs(m)
                if back != base:
                    d = c10_diff(base, back)
                    tag = classify_indices(op[1], set(), base["time"])
                    viol.append(("C18:insert-then-remove-does-not-restore-logs[%s]:%s" % (tag, d[0][0] if d else "?"), {"k": k + 1, "op": op, "first_difference(path, before, after)": d}))
            return m, viol, True  # history consumed
    return m, viol, False


def c10_diff(a, b, path=()):
    if isinstance(a, dict) and isinstance(b, dict):
        for k in sorted(set(a) | set(b)):
            r = c10_diff(a.get(k), b.get(k), path + (k,))
            if r:
                return r
        return None
    if a != b:
        return path, a, b
    return None


def index_lists(n, tier):
    pool = sorted(set([0, 1, max(1, n // 2), max(0, n - 1), n, n + 10]))
    out = []
    for k in (1, 2):
        for c in itertools.combinations_with_replacement(pool, k):
            out.append(tuple(c))
    # lists that are not ascending (callers are not obliged to sort)
    for c in itertools.combinations(pool, 2):
        out.append((c[1], c[0]))
    if len(pool) >= 3:
        out.append((pool[2], pool[0], pool[1]))
    if tier == "thorough":
        for c in itertools.combinations(pool, 3):
            out.append(tuple(c))
            out.append(tuple(reversed(c)))
    return out


def work(chunk):
    col = engines.Collector()
    for spec, label, sim_absence, depth, tier in chunk:
        key = hash((label, tuple(sim_absence)))
        sim_absence = tuple(sim_absence)
        m0 = start_project(spec, sim_absence)
        n = m0.project.time
        ops = [("insert", L) for L in index_lists(n, tier)] + [("remove",)] + ([("load-free",)] if label != "subproject" else [])
        ops += [("insert", L, "np") for L in index_lists(n, tier) if len(L) == 1 or L == (0, 1)]  # the same indices as numpy integers
        frontier = collections.deque([(op,) for op in ops])
        seen = set()
        while frontier:
            hist = frontier.popleft()
            m, viol, dead = replay_history(spec, sim_absence, hist)
            col.evaluations += 1
            col.transitions.add(hash((key, hist)))
            col.checks["c18.history"] += 1
            for sig, det in viol:
                if det["k"] >= len(hist) - 1 or dead:
                    col.violation({"property": "C18", "sig": sig, "kind": "hist", "label": label, "spec": spec, "sim_absence": list(sim_absence), "hist": [list(o) for o in hist], "detail": det})
            if viol or dead:
                continue
            c = hash(json.dumps(logs(m), sort_keys=True, default=str))
            if c in seen:
                continue
            seen.add(c)
            col.states.add(hash((key, c)))
            col.nontrivial.add(hash((key, c)))
            col.outcomes[(m.project.time - n)] += 1
            if len([o for o in hist if o[0] != "grow"]) < depth:
                n2 = m.project.time
                lists = index_lists(n2, tier)
                if len(hist) >= 2:
                    # third level: single indices and 'remove' only (the full alphabet is explored on the first two levels)
                    lists = [L for L in lists if len(L) == 1]
                if label.startswith("long-"):
                    lists = []  # (the 300-step model: every first-level edit, then only its removal)
                for op in [("insert", L) for L in lists] + [("remove",)] + ([("load-free",)] if label != "subproject" and len(hist) < 2 and not label.startswith("long-") else []):
                    frontier.append(hist + (op,))
                if len(hist) == 1 and label != "subproject" and (hist[0][0] == "remove" or (hist[0][0] == "insert" and len(hist[0]) == 2 and len(hist[0][1]) == 1)):
                    frontier.append(hist + (("grow",),))  # edit, then the organization grows and the project is simulated afresh, then edit again
        if len(col.samples) < 2:
            col.samples.append({"model": label, "sim_absence": list(sim_absence), "first_level_ops": [list(o) for o in ops[:6]]})
    return col


def run(tier, seed):
    tmpdir = tempfile.mkdtemp(prefix="verif-c18-")
    try:
        depth = 2 if tier == "quick" else 3
        items = []
        for sp, label in base_models(tmpdir):
            for sim_abs in ((), (1,), (0, 2), (1, 30, 31), (1, 3, 1, 40), (2, 2), ("back", 1), ("back", 1, 3, 40, 41), ("resumed",), ("resumed", 3), ("revised", 3), ("revised", 2, 4), ("looked-at",), ("looked-at", 1)):
                if tier == "quick" and label.startswith("scale:") and sim_abs not in ((), (1,), ("back", 1), ("resumed",)):
                    continue  # (the medium-sized model takes four of the ten start states in the quick tier)
                if label.startswith("long-") and sim_abs not in ((), (1, 30, 31)):
                    continue
                items.append((sp, label, sim_abs, depth, tier))
        col = engines.fanout(sorted(items, key=lambda it: 0 if it[1].startswith("scale:") else 1), work, seed=seed, chunks_per_proc=12)
    finally:
        shutil.rmtree(tmpdir, ignore_errors=True)
    meta = {
        "level": "model_checking",
        "rule": "breadth-first search over histories (depth %d) of insert_absence_time_list(L) and remove_absence_time_list() on finished simulations (forward with absence [], [1], [0,2], [1,30,31]; backward with [1] and [1,3,40,41]) of the base "
        "models (FS chain, parallel, automatic, facility+conveyor, shared component, nested, sub-project task, partly done tasks, a WORKING-READY-WORKING component, an empty team and an empty workplace), L ranging over every multiset of size <= 2 in ascending and descending order (thorough: also 3-subsets) of "
        "{0, 1, mid, last, last+1, last+10}; after every edit: no exception, every per-step log changed by the same count, time == common length, inserted steps zero-cost/no-work (tasks, resources and components); insert-then-remove "
        "on an absence-free result restores all logs; states de-duplicated on the complete log dump; non-trivial = distinct reached log states" % depth,
        "bounds": {"depth": depth, "start_states": len(items)},
        "assumptions": [],
    }
    return col, meta


def replay(v):
    tmpdir = tempfile.mkdtemp(prefix="verif-c18-")
    try:
        spec = v["spec"]
        if v.get("label") == "subproject":
            spec = dict(base_models(tmpdir)[-1][0])
        m, viol, dead = replay_history(spec, v["sim_absence"], [tuple(tuple(x) if isinstance(x, list) else x for x in o) for o in v["hist"]])
        return [{"sig": s, "detail": d} for s, d in viol]
    finally:
        shutil.rmtree(tmpdir, ignore_errors=True)
