"""C19 - Gantt data, state queries and dates report exactly what the logs contain."""
import datetime
import itertools

from .. import bootstrap, engines, oracles, spec as S  # noqa: F401
from pDESy.model.base_component import BaseComponent, BaseComponentState
from pDESy.model.base_facility import BaseFacility, BaseFacilityState
from pDESy.model.base_product import BaseProduct
from pDESy.model.base_project import BaseProject
from pDESy.model.base_task import BaseTask, BaseTaskState
from pDESy.model.base_team import BaseTeam
from pDESy.model.base_worker import BaseWorker, BaseWorkerState
from pDESy.model.base_workflow import BaseWorkflow
from pDESy.model.base_workplace import BaseWorkplace

INIT = datetime.datetime(2021, 3, 1, 9, 0, 0)
FMT = "%Y-%m-%d %H:%M:%S"
TS = [BaseTaskState.NONE, BaseTaskState.READY, BaseTaskState.WORKING, BaseTaskState.FINISHED]
CS = [BaseComponentState.NONE, BaseComponentState.READY, BaseComponentState.WORKING, BaseComponentState.FINISHED]
WS = [BaseWorkerState.FREE, BaseWorkerState.WORKING, BaseWorkerState.ABSENCE]
FS = [BaseFacilityState.FREE, BaseFacilityState.WORKING, BaseFacilityState.ABSENCE]


def runs(seq, value, margin):
    return [(start, (length - 1) + margin) for v, start, length in oracles.rle(seq) if v == value]


def viol(sig, detail):
    return {"property": "C19", "sig": sig, "kind": "rle", "detail": detail}


def _zoned_starts():
    try:
        import zoneinfo

        z = zoneinfo.ZoneInfo("Europe/Berlin")
        # two days before the change to summer time 2026 and one day before the change back: day-sized steps cross the change
        return (datetime.datetime(2026, 3, 27, 9, 0, 0, tzinfo=z), datetime.datetime(2026, 10, 24, 9, 0, 0, tzinfo=z))
    except Exception:
        return ()


# naive starts, fixed-offset starts, and starts in a zone whose offset changes during the charted period
INITS = (INIT, INIT.replace(tzinfo=datetime.timezone(datetime.timedelta(hours=9))), INIT.replace(tzinfo=datetime.timezone(datetime.timedelta(hours=-5, minutes=-30)))) + _zoned_starts()


def rows(name, lst, state, typ, unit, init=INIT):
    return [{"Task": name, "Start": (init + a * unit).strftime(FMT), "Finish": (init + (a + ln) * unit).strftime(FMT), "State": state, "Type": typ} for a, ln in lst]


def _long_logs(alpha):
    """long logs (17, 40 and 64 entries): every word of <= 4 states repeated periodically, and runs of growing length; very long logs of 300-1500 entries"""
    for L in (17, 40, 64):
        for p in range(1, 5):
            for word in itertools.product(alpha, repeat=p):
                if p > 1 and len(set(word)) == 1:
                    continue
                yield [word[i % p] for i in range(L)]
        seq, k, run = [], 0, 1
        while len(seq) < L:
            seq += [alpha[k % len(alpha)]] * run
            k += 1
            run += 1
        yield seq[:L]
    # very long logs (300, 777 and 1500 entries): a head of every word of <= 2 states, then one state to the end; a single state throughout; a change in the very last entry
    for L in (300, 777, 1500):
        for a in alpha:
            yield [a] * L
            for b in alpha:
                if b == a:
                    continue
                yield [a] * (L - 1) + [b]
                for head in (1, 17, 100, 255, 256, 257, L // 2):
                    yield [a] * head + [b] * (L - head)
                    yield ([a, b] * head)[:head] + [a] * (L - head)


def work_rle(chunk):
    col = engines.Collector()
    for kind, length in chunk:
        alpha = {"task": TS, "component": CS, "worker": WS, "facility": FS}[kind]
        for seq in (_long_logs(alpha) if length == "long" else itertools.product(alpha, repeat=length)):
            seq = list(seq)
            length = len(seq)
            for margin in (0, 0.5, 1.0):
                col.evaluations += 1
                col.checks["c19.rle." + kind] += 1
                if kind == "task":
                    o = BaseTask("t", ID="t")
                    o.state_record_list = list(seq)
                    want = (runs(seq, BaseTaskState.READY, margin), runs(seq, BaseTaskState.WORKING, margin))
                elif kind == "component":
                    o = BaseComponent("c", ID="c")
                    o.state_record_list = list(seq)
                    want = (runs(seq, BaseComponentState.READY, margin), runs(seq, BaseComponentState.WORKING, margin))
                elif kind == "worker":
                    o = BaseWorker("w", ID="w")
                    o.state_record_list = list(seq)
                    want = (runs(seq, BaseWorkerState.FREE, margin), runs(seq, BaseWorkerState.WORKING, margin), runs(seq, BaseWorkerState.ABSENCE, margin))
                else:
                    o = BaseFacility("f", ID="f")
                    o.state_record_list = list(seq)
                    want = (runs(seq, BaseFacilityState.FREE, margin), runs(seq, BaseFacilityState.WORKING, margin), runs(seq, BaseFacilityState.ABSENCE, margin))
                key = (kind, tuple(int(s) for s in seq), margin)
                col.states.add(hash(key))
                if len(col.samples) < 2 and length >= 4 and len(set(seq)) > 2:
                    col.samples.append({"kind": kind, "state_log": [int(s) for s in seq], "finish_margin": margin, "expected_intervals": [[list(x) for x in lst] for lst in want]})
                if len(set(seq)) > 1:
                    col.nontrivial.add(hash(key))
                try:
                    got = o.get_time_list_for_gannt_chart(finish_margin=margin)
                except Exception as e:
                    col.violation(viol("C19:get_time_list_for_gannt_chart-raised:%s:%s" % (kind, type(e).__name__), {"kind": kind, "log": [int(s) for s in seq], "margin": margin, "error": repr(e)}))
                    continue
                got = tuple([tuple(x) for x in lst] for lst in got)
                wantn = tuple([tuple(x) for x in lst] for lst in want)
                if got != wantn:
                    col.violation(viol("C19:gantt-intervals-are-not-the-maximal-runs:%s" % kind, {"kind": kind, "log": [int(s) for s in seq], "margin": margin, "got": got, "expected": wantn}))
                col.transitions.add(hash((key, repr(got))))
                if length >= 2 and margin == 1.0:
                    # the same object asked again after its log was edited in place (same length): no stale answer
                    alt = alpha[(alpha.index(seq[length // 2]) + 1) % len(alpha)]
                    o.state_record_list[length // 2] = alt
                    seq2 = list(o.state_record_list)
                    want2 = tuple([tuple(x) for x in runs(seq2, v_, margin)] for v_ in ({"task": (BaseTaskState.READY, BaseTaskState.WORKING), "component": (BaseComponentState.READY, BaseComponentState.WORKING),
                                  "worker": (BaseWorkerState.FREE, BaseWorkerState.WORKING, BaseWorkerState.ABSENCE), "facility": (BaseFacilityState.FREE, BaseFacilityState.WORKING, BaseFacilityState.ABSENCE)}[kind]))
                    got2 = tuple([tuple(x) for x in lst] for lst in o.get_time_list_for_gannt_chart(finish_margin=margin))
                    col.checks["c19.requery-after-edit"] += 1
                    if got2 != want2:
                        col.violation(viol("C19:gantt-intervals-stale-after-in-place-log-edit:%s" % kind, {"kind": kind, "log": [int(s) for s in seq], "edited_log": [int(s) for s in seq2], "got": got2, "expected": want2}))
                    o.state_record_list[length // 2] = seq[length // 2]
                # chart rows (tasks, components directly; workers / facilities through team / workplace)
                if margin in (0.5, 1.0) and length <= 5:
                  for init_ in INITS:
                    for unit in (datetime.timedelta(minutes=1), datetime.timedelta(days=1)):
                        col.checks["c19.rows." + kind] += 1
                        try:
                            if kind == "task":
                                df = o.create_data_for_gantt_plotly(init_, unit, finish_margin=margin, view_ready=True)
                                exp = rows("t", want[0], "READY", "Task", unit, init_) + rows("t", want[1], "WORKING", "Task", unit, init_)
                            elif kind == "component":
                                df = o.create_data_for_gantt_plotly(init_, unit, finish_margin=margin, view_ready=True)
                                exp = rows("c", want[0], "READY", "Component", unit, init_) + rows("c", want[1], "WORKING", "Component", unit, init_)
                            elif kind == "worker":
                                team = BaseTeam("tm", ID="tm", worker_list=[o])
                                df = team.create_data_for_gantt_plotly(init_, unit, finish_margin=margin, view_ready=True, view_absence=True)
                                exp = None
                            else:
                                wp = BaseWorkplace("wp", ID="wp", facility_list=[o])
                                df = wp.create_data_for_gantt_plotly(init_, unit, finish_margin=margin, view_ready=True, view_absence=True)
                                exp = None
                        except Exception as e:
                            col.violation(viol("C19:create_data_for_gantt_plotly-raised:%s:%s" % (kind, type(e).__name__), {"kind": kind, "log": [int(s) for s in seq], "error": repr(e)}))
                            continue
                        if exp is not None:
                            if df != exp:
                                col.violation(viol("C19:gantt-rows-wrong:%s" % kind, {"kind": kind, "log": [int(s) for s in seq], "margin": margin, "unit": str(unit), "init": str(init_), "got": df[:4], "expected": exp[:4]}))
                        else:
                            # team / workplace rows: compare the (State, Start, Finish) multiset with the three run lists
                            nm = df[0]["Task"] if df else None
                            gotset = sorted((r["State"], r["Start"], r["Finish"]) for r in df)
                            e2 = []
                            for lst, st in ((want[0], "READY"), (want[1], "WORKING"), (want[2], "ABSENCE")):
                                e2 += [(st, (init_ + a * unit).strftime(FMT), (init_ + (a + ln) * unit).strftime(FMT)) for a, ln in lst]
                            if gotset != sorted(e2):
                                col.violation(viol("C19:gantt-rows-wrong:%s" % kind, {"kind": kind, "log": [int(s) for s in seq], "margin": margin, "unit": str(unit), "got": gotset[:4], "expected": sorted(e2)[:4]}))
    return col


def _eq_subclass(base):
    class Graded(base):  # a user subclass with value equality: same name, same object as far as == is concerned
        def __eq__(self, other):
            return type(other) is type(self) and other.name == self.name

        def __hash__(self):
            return hash(self.name)

    Graded.__name__ = base.__name__
    return Graded


_EQ = {"task": _eq_subclass(BaseTask), "component": _eq_subclass(BaseComponent), "worker": _eq_subclass(BaseWorker), "facility": _eq_subclass(BaseFacility)}


def work_extract(chunk):
    col = engines.Collector()
    for kind, nobj, length in chunk:
        alpha = {"task": TS, "component": CS, "worker": WS, "facility": FS}[kind]
        timelists = [list(c) for k in range(0, 4) for c in itertools.combinations(range(4), k)]
        seqs = [list(s) for L in range(0, length + 1) for s in itertools.product(alpha, repeat=L)]
        twin = {"task": BaseComponentState, "component": BaseTaskState, "worker": BaseFacilityState, "facility": BaseWorkerState}[kind]
        # ("equal": workers / machines of a user subclass that compare equal by name; tasks and components, which the library keeps in sets, are not claimed under that usage)
        variants = [(False, "member")] + ([(True, "member")] if nobj > 1 else []) + ([("equal", "member")] if nobj > 1 and kind in ("worker", "facility") else []) + [(False, "int"), (False, "twin")]
        for logs, (same_name, rep) in itertools.product(itertools.combinations_with_replacement(range(len(seqs)), nobj), variants):
            objs = []
            for i, li in enumerate(logs):
                nm = "%s%d" % (kind[0], i)
                # objects may share a name (skills are keyed by name); IDs are what tells them apart
                o = ({"task": BaseTask, "component": BaseComponent, "worker": BaseWorker, "facility": BaseFacility} if same_name != "equal" else _EQ)[kind]("x" if same_name else nm, ID=nm)
                # entries as the simulator writes them, as plain ints, or as equal-valued members of the sibling enum
                # (both occur in logs that were read or appended from JSON); states are compared by value
                o.state_record_list = [x if rep == "member" else (int(x) if rep == "int" else twin(int(x))) for x in seqs[li]]
                objs.append(o)
            if kind == "task":
                cont = BaseWorkflow(objs)
                fns = {BaseTaskState.NONE: cont.extract_none_task_list, BaseTaskState.READY: cont.extract_ready_task_list,
                       BaseTaskState.WORKING: cont.extract_working_task_list, BaseTaskState.FINISHED: cont.extract_finished_task_list}
            elif kind == "component":
                cont = BaseProduct(objs)
                fns = {BaseComponentState.NONE: cont.extract_none_component_list, BaseComponentState.READY: cont.extract_ready_component_list,
                       BaseComponentState.WORKING: cont.extract_working_component_list, BaseComponentState.FINISHED: cont.extract_finished_component_list}
            elif kind == "worker":
                cont = BaseTeam("tm", ID="tm", worker_list=objs)
                fns = {BaseWorkerState.FREE: cont.extract_free_worker_list, BaseWorkerState.WORKING: cont.extract_working_worker_list}
            else:
                cont = BaseWorkplace("wp", ID="wp", facility_list=objs)
                fns = {BaseFacilityState.FREE: cont.extract_free_facility_list, BaseFacilityState.WORKING: cont.extract_working_facility_list}
            for tl in timelists:
                for st, fn in fns.items():
                    col.evaluations += 1
                    col.checks["c19.extract." + kind] += 1
                    try:
                        got = fn(list(tl))
                    except Exception as e:
                        col.violation(viol("C19:extract-raised:%s:%s" % (kind, type(e).__name__), {"kind": kind, "logs": [[int(s) for s in seqs[li]] for li in logs], "times": tl, "error": repr(e)}))
                        continue
                    want = [o for o in objs if all(t < len(o.state_record_list) and o.state_record_list[t] == st for t in tl)]
                    key = (kind, logs, same_name, rep, tuple(tl), int(st))
                    col.states.add(hash(key))
                    if want and len(want) < len(objs):
                        col.nontrivial.add(hash(key))
                    if sorted(map(id, got)) != sorted(map(id, want)):
                        col.violation(viol("C19:extract-returns-wrong-objects:%s" % kind, {"kind": kind, "state": int(st), "logs": [[int(s) for s in seqs[li]] for li in logs], "times": tl, "objects_share_one_name": same_name, "log_entries": rep,
                                                                                         "got": [o.ID for o in got], "expected": [o.ID for o in want]}))
    return col


def work_extract_long(chunk):
    """logs of 24 entries and requested time lists of 1..12 entries (contiguous ranges, every other step, every third step, scattered)"""
    col = engines.Collector()
    L = 24
    timelists = [list(range(a, a + n)) for a in (0, 5) for n in (1, 8, 9, 12)] + [list(range(a, L, s)) for a in (0, 1) for s in (2, 3)] + [[0, 1, 2, 3, 5, 8, 13, 21, 22, 23], [23, 0, 11, 4, 7, 9, 15, 2, 19, 20, 1]]
    for kind in chunk:
        alpha = {"task": TS, "component": CS, "worker": WS, "facility": FS}[kind]
        logs = [s for s in _long_logs(alpha) if len(s) == 40][:: (3 if kind in ("task", "component") else 1)]
        logs = [s[:L] for s in logs]
        cls = {"task": BaseTask, "component": BaseComponent, "worker": BaseWorker, "facility": BaseFacility}[kind]
        for a in range(0, len(logs) - 2, 3):
            objs = []
            for i in range(3):
                o = cls("%s%d" % (kind[0], i), ID="%s%d" % (kind[0], i))
                o.state_record_list = list(logs[a + i])
                objs.append(o)
            if kind == "task":
                cont = BaseWorkflow(objs)
                fns = {BaseTaskState.NONE: cont.extract_none_task_list, BaseTaskState.READY: cont.extract_ready_task_list, BaseTaskState.WORKING: cont.extract_working_task_list, BaseTaskState.FINISHED: cont.extract_finished_task_list}
            elif kind == "component":
                cont = BaseProduct(objs)
                fns = {BaseComponentState.NONE: cont.extract_none_component_list, BaseComponentState.READY: cont.extract_ready_component_list, BaseComponentState.WORKING: cont.extract_working_component_list,
                       BaseComponentState.FINISHED: cont.extract_finished_component_list}
            elif kind == "worker":
                cont = BaseTeam("tm", ID="tm", worker_list=objs)
                fns = {BaseWorkerState.FREE: cont.extract_free_worker_list, BaseWorkerState.WORKING: cont.extract_working_worker_list}
            else:
                cont = BaseWorkplace("wp", ID="wp", facility_list=objs)
                fns = {BaseFacilityState.FREE: cont.extract_free_facility_list, BaseFacilityState.WORKING: cont.extract_working_facility_list}
            for tl in timelists:
                for st, fn in fns.items():
                    col.evaluations += 1
                    col.checks["c19.extract-long." + kind] += 1
                    try:
                        got = fn(list(tl))
                    except Exception as e:
                        col.violation(viol("C19:extract-raised:%s:%s" % (kind, type(e).__name__), {"kind": kind, "times": tl, "error": repr(e)}))
                        continue
                    want = [o for o in objs if all(t < len(o.state_record_list) and o.state_record_list[t] == st for t in tl)]
                    key = (kind, "long", a, tuple(tl), int(st))
                    col.states.add(hash(key))
                    if want and len(want) < len(objs):
                        col.nontrivial.add(hash(key))
                    if sorted(map(id, got)) != sorted(map(id, want)):
                        col.violation(viol("C19:extract-returns-wrong-objects:%s:long-logs" % kind, {"kind": kind, "state": int(st), "logs": [[int(s) for s in o.state_record_list] for o in objs], "times": tl,
                                                                                                   "got": [o.ID for o in got], "expected": [o.ID for o in want]}))
    return col


def work_containers(chunk):
    """the container-level chart data (workflow / product / organization) must be the concatenation of the members' rows"""
    col = engines.Collector()
    for length in chunk:
        seqs_t = list(itertools.product(TS, repeat=length))
        seqs_r = list(itertools.product(WS, repeat=length))
        step_t = max(1, len(seqs_t) // 40)
        step_r = max(1, len(seqs_r) // 40)
        for a, b in zip(seqs_t[::step_t], seqs_r[::step_r]):
            for margin in (0.0, 0.5, 1.0, 2.0):
                for unit, auto2 in ((datetime.timedelta(minutes=1), False), (datetime.timedelta(hours=6), False), (datetime.timedelta(hours=6), True)):
                    t1, t2 = BaseTask("t1", ID="t1"), BaseTask("t2", ID="t2", auto_task=auto2)
                    t1.state_record_list, t2.state_record_list = list(a), list(reversed(a))
                    c1 = BaseComponent("c1", ID="c1")
                    c1.state_record_list = [BaseComponentState(int(x)) for x in a]
                    w1, w2 = BaseWorker("w1", ID="w1"), BaseWorker("w2", ID="w2")
                    w1.state_record_list, w2.state_record_list = list(b), list(reversed(b))
                    f1 = BaseFacility("f1", ID="f1")
                    f1.state_record_list = [BaseFacilityState(int(x)) for x in b]
                    wf, pr = BaseWorkflow([t1, t2]), BaseProduct([c1])
                    from pDESy.model.base_organization import BaseOrganization

                    org = BaseOrganization(team_list=[BaseTeam("tm1", ID="tm1", worker_list=[w1]), BaseTeam("tm2", ID="tm2", worker_list=[w2])],
                                           workplace_list=[BaseWorkplace("wp", ID="wp", facility_list=[f1])])
                    if margin == 0.5:
                        # hierarchy: the second team reports to a division and the workplace belongs to a yard that are NOT registered in the organization;
                        # the first team is the parent of a registered sub-team without workers
                        org.team_list[1].set_parent_team(BaseTeam("division", ID="division"))
                        org.workplace_list[0].set_parent_workplace(BaseWorkplace("yard", ID="yard"))
                        sub = BaseTeam("tm1a", ID="tm1a")
                        sub.set_parent_team(org.team_list[0])
                        org.team_list.append(sub)
                    if margin == 2.0:
                        # a part that belongs to two registered assemblies (a shared bracket)
                        c2, c3 = BaseComponent("c2", ID="c2"), BaseComponent("c3", ID="c3")
                        c2.state_record_list = [BaseComponentState(int(x)) for x in reversed(a)]
                        c3.state_record_list = [BaseComponentState(int(x)) for x in a]
                        c1.append_child_component(c2)
                        c3.append_child_component(c2)
                        pr = BaseProduct([c1, c2, c3])
                    col.evaluations += 1
                    col.checks["c19.container-rows"] += 1
                    key = ("container", tuple(int(x) for x in a), tuple(int(x) for x in b), margin, str(unit), auto2)
                    col.states.add(hash(key))
                    col.nontrivial.add(hash(key))

                    def triple(rows_):
                        return sorted((r["Task"], r["State"], r["Start"], r["Finish"]) for r in rows_)

                    try:
                        got_wf = wf.create_data_for_gantt_plotly(INIT, unit, finish_margin=margin, view_ready=True)
                        exp_wf = t1.create_data_for_gantt_plotly(INIT, unit, finish_margin=margin, view_ready=True) + t2.create_data_for_gantt_plotly(INIT, unit, finish_margin=margin, view_ready=True)
                        got_pr = pr.create_data_for_gantt_plotly(INIT, unit, finish_margin=margin, view_ready=True)
                        exp_pr = []
                        for c_ in pr.component_list:
                            exp_pr += c_.create_data_for_gantt_plotly(INIT, unit, finish_margin=margin, view_ready=True)
                        got_org = org.create_data_for_gantt_plotly(INIT, unit, finish_margin=margin, view_ready=True, view_absence=True)
                        exp_org = []
                        for tm in org.team_list:
                            exp_org += tm.create_data_for_gantt_plotly(INIT, unit, finish_margin=margin, view_ready=True, view_absence=True)
                        for wp in org.workplace_list:
                            exp_org += wp.create_data_for_gantt_plotly(INIT, unit, finish_margin=margin, view_ready=True, view_absence=True)
                    except Exception as e:
                        col.violation(viol("C19:container-create_data_for_gantt_plotly-raised:%s" % type(e).__name__, {"kind": "container", "error": repr(e)}))
                        continue
                    for nm, g, e_ in (("workflow", got_wf, exp_wf), ("product", got_pr, exp_pr), ("organization", got_org, exp_org)):
                        if triple(g) != triple(e_):
                            col.violation(viol("C19:container-gantt-rows-differ-from-members:%s" % nm, {"kind": "container", "container": nm, "margin": margin, "unit": str(unit),
                                                                                                      "task_log": [int(x) for x in a], "resource_log": [int(x) for x in b],
                                                                                                      "got": triple(g)[:4], "expected": triple(e_)[:4]}))
    return col


def work_integration(chunk):
    """set_last_datetime on real results: after simulate (+ remove_absence_time_list) the last logged step must fall on the given date"""
    col = engines.Collector()
    from .. import families as F, runner

    last = datetime.datetime(2022, 6, 30, 12, 0, 0)
    for item in chunk:
        sp, absence, remove = item[:3]
        hist = item[3] if len(item) > 3 else None
        m = runner.prepare(sp, {})
        if hist == "appended":
            # a second life cycle appended to the kept logs (states reset, logs kept)
            m.project.simulate(max_time=40, absence_time_list=list(absence))
            m.project.simulate(max_time=80, absence_time_list=list(absence), initialize_state_info=True, initialize_log_info=False)
        elif hist == "resumed-with-fresh-logs":
            m.project.simulate(max_time=2, absence_time_list=list(absence))
            m.project.simulate(max_time=40, absence_time_list=list(absence), initialize_state_info=False, initialize_log_info=True)
        elif hist == "removed-then-inserted":
            m.project.simulate(max_time=40, absence_time_list=list(absence))
            m.project.remove_absence_time_list()
            m.project.insert_absence_time_list(list(absence))
        elif hist == "stopped-and-continued":
            m.project.simulate(max_time=2, absence_time_list=list(absence))
            m.project.simulate(max_time=40, absence_time_list=list(absence), initialize_state_info=False, initialize_log_info=False)
        elif hist == "team-formed-at-the-stop":
            # at the stop the last worker of the first team moves into a newly founded team with the same assignment; the run is continued
            m.project.simulate(max_time=2, absence_time_list=list(absence))
            old = m.project.organization.team_list[0]
            new = BaseTeam("TMN", ID="TMN")
            w = old.worker_list[-1]
            old.worker_list.remove(w)
            new.add_worker(w)
            new.extend_targeted_task_list(list(old.targeted_task_list))
            m.project.organization.team_list.append(new)
            m.project.simulate(max_time=40, absence_time_list=list(absence), initialize_state_info=False, initialize_log_info=False)
        else:
            m.project.simulate(max_time=40, absence_time_list=list(absence))
        if remove:
            m.project.remove_absence_time_list()
        unit = datetime.timedelta(hours=2)
        init = m.project.set_last_datetime(last, unit_timedelta=unit)
        nlog = len(m.project.cost_list)
        col.evaluations += 1
        col.checks["c19.set_last_datetime-on-results"] += 1
        key = ("integration", repr(sp["links"]), tuple(absence), remove, hist)
        col.states.add(hash(key))
        col.nontrivial.add(hash(key))
        # the state queries on the real result: every single step and every pair of neighbouring steps, against the members' own logs
        p_ = m.project
        groups = [(tm.ID, tm.worker_list, ((tm.extract_free_worker_list, 0), (tm.extract_working_worker_list, 1))) for tm in p_.organization.team_list]
        groups += [(wp.ID, wp.facility_list, ((wp.extract_free_facility_list, 0), (wp.extract_working_facility_list, 1))) for wp in p_.organization.workplace_list]
        groups.append(("workflow", p_.workflow.task_list, ((p_.workflow.extract_none_task_list, 0), (p_.workflow.extract_ready_task_list, 1), (p_.workflow.extract_working_task_list, 2), (p_.workflow.extract_finished_task_list, -1))))
        for gname, members, queries in groups:
            for fn, code in queries:
                for times in [[t] for t in range(nlog)] + [[t, t + 1] for t in range(nlog - 1)]:
                    want = sorted(x.ID for x in members if all(t < len(x.state_record_list) and int(x.state_record_list[t]) == code for t in times))
                    try:
                        got = sorted(x.ID for x in fn(times))
                    except Exception as e:
                        got = "raised %s" % type(e).__name__
                    col.checks["c19.extract-on-results"] += 1
                    if got != want:
                        col.violation(viol("C19:extract-on-simulated-result-wrong:%s" % fn.__name__, {"kind": "integration", "spec": sp, "absence": list(absence), "removed": remove, "history": hist, "container": gname,
                                                                                                     "times": times, "got": got, "expected": want}))
        if nlog >= 1 and init + (nlog - 1) * unit != last:
            col.violation(viol("C19:set_last_datetime-last-logged-step-not-on-given-date", {"kind": "integration", "spec": sp, "absence": list(absence), "removed": remove, "history": hist, "time": m.project.time, "logged_steps": nlog,
                                                                                           "last_step_date": str(init + (nlog - 1) * unit), "requested": str(last)}))
    return col


def work_dates(chunk):
    col = engines.Collector()
    for _ in chunk:
        for time in range(1, 8):
            for unit in (datetime.timedelta(minutes=1), datetime.timedelta(minutes=5), datetime.timedelta(days=1), datetime.timedelta(milliseconds=500), datetime.timedelta(microseconds=333333), datetime.timedelta(seconds=1.5)):
                for give_unit in (False, True):
                    for set_init in (False, True):
                        for last in (datetime.datetime(2022, 1, 1, 0, 0, 0), datetime.datetime(2020, 2, 29, 23, 59, 0), datetime.datetime(2022, 1, 1, 12, 0, 0, 250000)):
                            p = BaseProject(init_datetime=INIT, unit_timedelta=unit if not give_unit else datetime.timedelta(hours=3))
                            p.time = time
                            col.evaluations += 1
                            col.checks["c19.set_last_datetime"] += 1
                            got = p.set_last_datetime(last, unit_timedelta=unit if give_unit else None, set_init_datetime=set_init)
                            want = last - unit * (time - 1)
                            key = (time, str(unit), give_unit, set_init, str(last))
                            col.states.add(hash(key))
                            col.nontrivial.add(hash(key))
                            bad = got != want or (set_init and p.init_datetime != want) or ((not set_init) and p.init_datetime != INIT)
                            # the last simulated step (index time-1) falls on the given date
                            if got + (time - 1) * unit != last:
                                bad = True
                            if bad:
                                col.violation(viol("C19:set_last_datetime-wrong", {"time": time, "unit": str(unit), "last": str(last), "got": str(got), "expected": str(want), "init_after": str(p.init_datetime)}))
    return col


def run(tier, seed):
    L_t = 6 if tier == "quick" else 8
    L_r = 7 if tier == "quick" else 9
    items = [("task", n) for n in range(0, L_t + 1)] + [("component", n) for n in range(0, L_t + 1)] + [("worker", n) for n in range(0, L_r + 1)] + [("facility", n) for n in range(0, L_r + 1)]
    items += [(k, "long") for k in ("task", "component", "worker", "facility")]
    col = engines.fanout(items, work_rle, seed=seed, chunks_per_proc=4)
    ex_items = [(k, n, L) for k in ("task", "component", "worker", "facility") for n, L in (((1, 3), (2, 2), (3, 1)) if tier == "quick" else ((1, 3), (2, 3), (3, 2)))]
    col.merge(engines.fanout(ex_items, work_extract, seed=seed, chunks_per_proc=1))
    col.merge(engines.fanout(["task", "component", "worker", "facility"], work_extract_long, seed=seed, chunks_per_proc=1))
    col.merge(work_dates([0]))
    col.merge(engines.fanout(list(range(1, 6 if tier == "quick" else 8)), work_containers, seed=seed, chunks_per_proc=1))
    from .. import families as F

    integ = []
    for fl in list(F.flows(3, ("FS", "SS"), (1, 2)))[:: (6 if tier == "quick" else 1)]:
        sp = F.with_teams(fl, "POOL2")
        for ab in ((), (1,), (0, 2), (1, 20, 21), (2, 2)):
            for rm in (False, True):
                integ.append((sp, ab, rm))
        for hist in ("appended", "resumed-with-fresh-logs", "stopped-and-continued", "team-formed-at-the-stop"):
            integ.append((sp, (), False, hist))
            integ.append((sp, (1,), False, hist))
        for ab in ((1, 3), (2, 5), (1, 2, 6), (4, 5), (0, 2)):
            integ.append((sp, ab, False, "removed-then-inserted"))
    col.merge(engines.fanout(integ, work_integration, seed=seed))
    meta = {
        "level": "exploration",
        "rule": "every state sequence of length <= %d (plus periodic and growing-run logs of 17, 40 and 64 entries) over {NONE,READY,WORKING,FINISHED} for tasks and components and of length <= %d over {FREE,WORKING,ABSENCE} for workers and facilities x finish margins "
        "{0,0.5,1}: get_time_list_for_gannt_chart must return exactly the maximal runs (start, length-1+margin); chart rows for unit 1 minute / 1 day (lengths <= 5) must map index k to init+k*unit; every "
        "multiset of <= 3 logs (all sequences up to a length bound; objects with distinct names and all sharing one name; log entries as enum members, plain ints and members of the sibling enum) x every time list within {0..3} x every state: extract_* of workflow/product/team/workplace must return exactly the matching objects; "
        "set_last_datetime for time 1..7 x units x flags x dates, and on real results (simulate with absence lists incl. beyond-the-end and duplicated steps, with and without remove_absence_time_list); "
        "container-level chart data of workflow / product / organization must equal the concatenation of the members' rows for margins {0,0.5,1,2} (one member an automatic task); non-trivial = sequences with at least two different states / queries selecting a proper non-empty subset" % (L_t, L_r),
        "bounds": {"task_seq_len": L_t, "resource_seq_len": L_r},
        "assumptions": ["set_last_datetime is claimed for time >= 1 (with no simulated step there is no last step)"],
    }
    return col, meta


def replay(v):
    d = v["detail"]
    kind = d.get("kind")
    if "extract-on-simulated-result" in v["sig"]:
        col = work_integration([(d["spec"], tuple(d["absence"]), d["removed"], d.get("history"))])
    elif "long-logs" in v["sig"]:
        col = work_extract_long([kind])
    elif "extract" in v["sig"]:
        col = work_extract([(kind, len(d["logs"]), max([len(x) for x in d["logs"]] + [1]))])
    elif "last-logged-step" in v["sig"]:
        col = work_integration([(d["spec"], tuple(d["absence"]), d["removed"], d.get("history"))])
    elif "container" in v["sig"]:
        col = work_containers([len(d.get("task_log") or [0])])
    elif "set_last_datetime" in v["sig"]:
        col = work_dates([0])
    else:
        col = work_rle([(kind, len(d["log"]) if len(d["log"]) <= 9 else "long")])
    return [x for x in col.violations if x["sig"] == v["sig"]]
