"""C13 - component placement respects location, capacity, conveyor and site rules."""
import itertools

from .. import families as F, monitors as M, stepcheck

MONS = [M.mon_c13]


def competing_specs(tier):
    """2-3 components competing for workplaces of various capacities, conveyor chains / fan-in, both workplace rules."""
    out = []
    caps = (0.5, 1.0, 1.5, 2.0)
    for ncomp in (2, 3):
        names = [F.tname(i) for i in range(ncomp)]
        full = {nm: 1.0 for nm in names}
        for space in ((1.0,) * ncomp, (0.5,) + (1.0,) * (ncomp - 1)):
            for cap0, cap1 in itertools.product(caps, repeat=2):
                if tier == "quick" and (cap0, cap1) not in ((1.0, 1.0), (2.0, 1.0), (1.5, 0.5), (0.5, 2.0), (2.0, 2.0)):
                    continue
                for conv in ("none", "chain", "fan-in"):
                    for wprule in ("FSS", "SSP"):
                        for links in ([], [[0, 1, "FS"]]):
                            tasks = [{"name": names[i], "work": 2.0 if i == 0 else 1.0, "nf": True, "wprule": wprule} for i in range(ncomp)]
                            comps = [{"name": "C%d" % i, "tasks": [i], "space": space[i]} for i in range(ncomp)]
                            allt = list(range(ncomp))
                            wps = [
                                {"name": "WP0", "cap": cap0, "targets": allt, "facilities": [{"name": "F0", "skills": dict(full), "cost": 1.0}, {"name": "F1", "skills": dict(full), "cost": 1.0}]},
                                {"name": "WP1", "cap": cap1, "targets": allt, "facilities": [{"name": "F2", "skills": {nm: 2.0 for nm in names}, "cost": 1.0}]},
                            ]
                            if conv == "chain":
                                wps[1]["inputs"] = [0]
                            elif conv == "fan-in":
                                wps.append({"name": "WP2", "cap": 1.0, "targets": allt, "inputs": [0, 1], "facilities": [{"name": "F3", "skills": dict(full), "cost": 1.0}]})
                            fn = [f["name"] for wp in wps for f in wp["facilities"]]
                            teams = [{"name": "TM0", "targets": allt, "workers": [{"name": "W%d" % i, "skills": dict(full), "fskills": {f: 1.0 for f in fn}, "cost": 1.0} for i in range(ncomp)]}]
                            out.append({"tasks": tasks, "links": links, "components": comps, "workplaces": wps, "teams": teams})
    # a component with two facility tasks (ready together / chained), two workplaces
    for links in ([], [[0, 1, "FS"]], [[0, 1, "SS"]]):
        for cap in (1.0, 2.0):
            for nf1 in (True, False):
                names = ["T0", "T1"]
                full = {nm: 1.0 for nm in names}
                tasks = [{"name": "T0", "work": 2.0, "nf": True}, {"name": "T1", "work": 1.0, "nf": nf1}]
                comps = [{"name": "C0", "tasks": [0, 1]}]
                wps = [{"name": "WP0", "cap": cap, "targets": [0, 1], "facilities": [{"name": "F0", "skills": dict(full)}]},
                       {"name": "WP1", "cap": cap, "targets": [0, 1], "facilities": [{"name": "F1", "skills": dict(full)}]}]
                teams = [{"name": "TM0", "targets": [0, 1], "workers": [{"name": "W%d" % i, "skills": dict(full), "fskills": {"F0": 1.0, "F1": 1.0}} for i in range(2)]}]
                out.append({"tasks": tasks, "links": links, "components": comps, "workplaces": wps, "teams": teams})
    out.extend(F.three_level_product_specs())
    # fixed facility IDs naming a facility of another workplace than the one the component is placed at
    for fixf in (["F2"], ["F1", "F2"], ["F0"]):
        for cap0, cap1 in ((1.0, 1.0), (2.0, 1.0), (1.0, 2.0)):
            names = ["T0", "T1"]
            full = {nm: 1.0 for nm in names}
            tasks = [{"name": "T0", "work": 2.0, "nf": True, "fixf": fixf}, {"name": "T1", "work": 3.0, "nf": True}]
            comps = [{"name": "C0", "tasks": [0]}, {"name": "C1", "tasks": [1]}]
            wps = [{"name": "WP0", "cap": cap0, "targets": [0, 1], "facilities": [{"name": "F0", "skills": dict(full)}, {"name": "F1", "skills": dict(full)}]},
                   {"name": "WP1", "cap": cap1, "targets": [0, 1], "facilities": [{"name": "F2", "skills": dict(full)}]}]
            teams = [{"name": "TM0", "targets": [0, 1], "workers": [{"name": "W%d" % i, "skills": dict(full), "fskills": {"F0": 1.0, "F1": 1.0, "F2": 1.0}} for i in range(2)]}]
            for order in (None, [1, 0]):
                sp = {"tasks": tasks, "links": [], "components": comps, "workplaces": wps, "teams": teams}
                if order:
                    sp["order"] = order
                out.append(sp)
    # assembly: parent with two children that are processed first (FS into the parent's task), parts area + dock
    for cap_parts in (1.0, 2.0):
        for cap_dock in (1.0, 3.0):
            for nfp in (True, False):
                names = ["T0", "T1", "T2"]
                full = {nm: 1.0 for nm in names}
                tasks = [{"name": "T0", "work": 2.0, "nf": True}, {"name": "T1", "work": 2.0, "nf": True}, {"name": "T2", "work": 1.0, "nf": nfp}]
                comps = [{"name": "P", "tasks": [2], "children": [1, 2]}, {"name": "CA", "tasks": [0]}, {"name": "CB", "tasks": [1]}]
                wps = [{"name": "PARTS", "cap": cap_parts, "targets": [0, 1], "facilities": [{"name": "F0", "skills": dict(full)}, {"name": "F1", "skills": dict(full)}]},
                       {"name": "DOCK", "cap": cap_dock, "targets": [2], "facilities": [{"name": "F2", "skills": dict(full)}]}]
                teams = [{"name": "TM0", "targets": [0, 1, 2], "workers": [{"name": "W%d" % i, "skills": dict(full), "fskills": {"F0": 1.0, "F1": 1.0, "F2": 1.0}} for i in range(2)]}]
                out.append({"tasks": tasks, "links": [[0, 2, "FS"], [1, 2, "FS"]], "components": comps, "workplaces": wps, "teams": teams})
    # partial conveyor layouts: two components with chained tasks (cut -> weld), two cutting and two welding places,
    # every subset of the four possible cut->weld links declared
    import itertools as _it

    for mask in range(16):
        for caps in ((1.0, 1.0, 1.0, 1.0), (1.0, 1.0, 2.0, 1.0)):
            if tier == "quick" and caps[2] == 2.0 and mask not in (1, 2, 4, 8, 9, 6):
                continue
            names = ["A0", "B0", "A1", "B1"]
            wpr = "SSP" if mask % 2 else "FSS"  # (every other layout under the skill-points rule: the preferred welding place is the better equipped one)
            tasks = [{"name": "A0", "work": 1.0, "nf": True, "wprule": wpr}, {"name": "B0", "work": 2.0, "nf": True, "wprule": wpr}, {"name": "A1", "work": 2.0, "nf": True, "wprule": wpr}, {"name": "B1", "work": 1.0, "nf": True, "wprule": wpr}]
            links = [[0, 1, "FS"], [2, 3, "FS"]]
            comps = [{"name": "X", "tasks": [0, 1]}, {"name": "Y", "tasks": [2, 3]}]
            cutsk = {"A0": 1.0, "A1": 1.0}
            weldsk = {"B0": 1.0, "B1": 1.0}
            wps = [{"name": "CUT1", "cap": caps[0], "targets": [0, 2], "facilities": [{"name": "FC1", "skills": dict(cutsk)}]},
                   {"name": "CUT2", "cap": caps[1], "targets": [0, 2], "facilities": [{"name": "FC2", "skills": dict(cutsk)}]},
                   {"name": "WELD1", "cap": caps[2], "targets": [1, 3], "facilities": [{"name": "FW1", "skills": {k: 2.0 for k in weldsk}}], "inputs": [i for i in (0, 1) if mask >> i & 1]},
                   {"name": "WELD2", "cap": caps[3], "targets": [1, 3], "facilities": [{"name": "FW2", "skills": dict(weldsk)}], "inputs": [i for i in (0, 1) if mask >> (2 + i) & 1]}]
            full = {nm: 1.0 for nm in names}
            fs = {"FC1": 1.0, "FC2": 1.0, "FW1": 1.0, "FW2": 1.0}
            teams = [{"name": "TM0", "targets": [0, 1, 2, 3], "workers": [{"name": "W%d" % i, "skills": dict(full), "fskills": dict(fs)} for i in range(2)]}]
            out.append({"tasks": tasks, "links": links, "components": comps, "workplaces": wps, "teams": teams})
    return out


def deep_nesting_specs():
    """a product nested ten levels deep (top P0 ... part P9); top and bottom have a facility task, the top is processed in a hall, the part in a shop first"""
    out = []
    for n in (3, 10):
      for part_first in (True, None):  # (parent and part READY together is the known nested-placement finding of section 8.2)
          # part_first None: only the top component has a task (the whole assembly is carried in and out as one piece)
          tasks = [{"name": "T0", "work": 2.0, "nf": True}] + ([{"name": "T1", "work": 1.0, "nf": True}] if part_first else [{"name": "T1", "work": 1.0}])
          comps = [{"name": "P%d" % i, "tasks": ([0] if i == 0 else ([1] if (i == n - 1 and part_first) else [])), "children": ([i + 1] if i < n - 1 else []), "space": 1.0} for i in range(n)]
          wps = [{"name": "HALL", "cap": 1.0, "targets": [0], "facilities": [{"name": "F0", "skills": {"T0": 1.0}}]},
                 {"name": "SHOP", "cap": 1.0, "targets": [1], "facilities": [{"name": "F1", "skills": {"T1": 1.0}}]}]
          teams = [{"name": "TM0", "targets": [0, 1], "workers": [{"name": "W0", "skills": {"T0": 1.0, "T1": 1.0}, "fskills": {"F0": 1.0, "F1": 1.0}}]}]
          out.append({"tasks": tasks, "links": [[1, 0, "FS"]] if part_first else [], "components": comps, "workplaces": wps, "teams": teams, "label": "deep-nesting:%d:%s" % (n, part_first)})
    return out


def items(tier):
    out = []
    for sp in deep_nesting_specs():
        out.append((sp, {"rule": "TSLACK", "max_time": 14}))
    out.append((F.dock_spec(), {"rule": "TSLACK", "max_time": 24}))
    for cap, s0, s1 in ((1.0e10, 4.0e9, 6.0e9 + 3), (1.0e10, 4.0e9, 6.0e9), (1.0, 1.0, 0.0), (1.0, 0.0, 0.0), (0.3, 0.1, 0.2), (0.3, 0.1, 0.2 + 1e-9)):
        names = ["T0", "T1"]
        full = {nm: 1.0 for nm in names}
        big = {"tasks": [{"name": "T0", "work": 3.0, "nf": True}, {"name": "T1", "work": 2.0, "nf": True}], "links": [],
               "components": [{"name": "C0", "tasks": [0], "space": s0}, {"name": "C1", "tasks": [1], "space": s1}],
               "workplaces": [{"name": "WP0", "cap": cap, "targets": [0, 1], "facilities": [{"name": "F0", "skills": dict(full)}, {"name": "F1", "skills": dict(full)}]}],
               "teams": [{"name": "TM0", "targets": [0, 1], "workers": [{"name": "W%d" % i, "skills": dict(full), "fskills": {"F0": 1.0, "F1": 1.0}} for i in range(2)]}]}
        out.append((big, {"rule": "TSLACK", "max_time": 14}))
    # a caller-chosen error_tol: capacity is capacity whatever tolerance the run is given (three parts of 0.335 in a unit room overshoot it by 0.005)
    for sizes, cap in (((0.335, 0.335, 0.335), 1.0), ((0.5, 0.5, 0.004), 1.0), ((1.0, 1.0, 0.05), 2.0)):
        names = ["T0", "T1", "T2"]
        full = {nm: 1.0 for nm in names}
        tri = {"tasks": [{"name": nm, "work": 3.0, "nf": True} for nm in names], "links": [],
               "components": [{"name": "C%d" % i, "tasks": [i], "space": sizes[i]} for i in range(3)],
               "workplaces": [{"name": "WP0", "cap": cap, "targets": [0, 1, 2], "facilities": [{"name": "F%d" % i, "skills": dict(full)} for i in range(3)]}],
               "teams": [{"name": "TM0", "targets": [0, 1, 2], "workers": [{"name": "W%d" % i, "skills": dict(full), "fskills": {"F0": 1.0, "F1": 1.0, "F2": 1.0}} for i in range(3)]}]}
        for tol in (None, 0.01, 0.1, 1e-6):
            out.append((tri, {"rule": "TSLACK", "max_time": 16, "error_tol": tol}))
    for sp in list(F.fac_specs(tier)) + competing_specs(tier) + F.same_name_workplace_specs() + F.waiting_assembly_specs() + F.ff_held_component_specs() + F.late_placement_specs() + F.sequential_facility_specs() + F.auto_cure_specs():
        out.append((sp, {"rule": "TSLACK", "max_time": F.seq_bound(sp) + 8}))
    return out


def restart_items(tier):
    """runs stopped at step k and started again with each pair of initialisation flags (placements must stay consistent)"""
    out = []
    for sp, o in items(tier)[:: (5 if tier == "quick" else 2)]:
        for k in (1, 2):
            for flags in ((False, False), (True, False), (False, True)):
                out.append((sp, dict(o, resume_from=k, restart_flags=list(flags))))
    # a forward run that follows one or two backward runs on the same object (what the backward run did to the workplace links must be undone, caches included)
    for sp, o in [it for it in items(tier) if any(wp.get("inputs") for wp in it[0].get("workplaces", []))][:: (3 if tier == "quick" else 1)]:
        for nb in (1, 2):
            out.append((sp, dict(o, presim_back=nb)))
        out.append((sp, dict(o, presim_back=1, presim_back_rev=False)))  # the earlier backward run left its logs unreversed
        one = dict(sp, workplaces=[dict(wp, wire_inputs="one-sided") for wp in sp["workplaces"]])  # the same layout with its links declared on the receiving side only
        out.append((one, dict(o)))
        out.append((one, dict(o, presim_back=1)))
        out.append((one, dict(o, presim=1, presim_back=1)))
    # stopped at step k, written to JSON, read into a new project and continued there (placement state has to survive the round trip)
    for sp, o in items(tier)[:: (4 if tier == "quick" else 2)]:
        for k in (1, 2, 3):
            out.append((sp, dict(o, resume_from=k, resume_via_json=True)))
    return out


def run(tier, seed):
    H, D = (4, 1) if tier == "quick" else (5, 2)
    its = items(tier)
    col = stepcheck.explore(its, MONS, H, D, who_fn=lambda sp: F.facility_names(sp)[:3] + ["P"], seed=seed)
    ri = restart_items(tier)
    ri += stepcheck.resumed_edit_items(("add-component", "move-facility-in", "resize-placed-component"), ks=(1, 2, 3))  # a top-level component appended / a machine moved in / a placed block re-measured at a stop
    col.merge(stepcheck.explore(ri, MONS, 0, 0, seed=seed))
    col.merge(stepcheck.explore(F.scale_items(("TSLACK",)), MONS, 0, 0, seed=seed))  # medium-sized models (10-14 tasks / workers / machines), long absence lists
    col.merge(stepcheck.explore(F.extra_items(("TSLACK",), calendars=False), MONS, 0, 0, seed=seed))  # other ways of building the object graph; continuations under a revised calendar
    meta = {
        "level": "model_checking",
        "rule": "the FAC family (flat / shared / parent-child / extra components x 1-2 workplaces with capacities 1/2, conveyor link, facility layouts) plus 2-3 components of space 0.5/1 competing "
        "for two or three workplaces with capacities over {0.5,1,1.5,2}, conveyor none/chain/fan-in, both workplace rules, FS link or none, a component carrying two tasks, an assembly whose two children are processed in a parts area before the parent is docked, and two components with chained cut->weld tasks "
        "over four workplaces with every subset of the four possible conveyor links declared, and two copied lines whose workplaces and tasks carry the same names (IDs differ); each explored over "
        "absence answers (first three facilities, project; slices restarted with each flag pair and continued through JSON in a new project) up to horizon H with <= D non-default answers; invariants on live state at every phase, on the placement events logged by the harness' "
        "component/workplace subclasses, and on the logs; non-trivial = distinct (model, workplace, placed set) and (model, component, from, to) moves",
        "bounds": {"H": H, "D": D, "base_models": len(its)},
        "assumptions": ["a re-placement at the same workplace (remove + set within one allocation) is not counted as a move"],
    }
    if col.checks["c13.moves"] == 0 or not col.nontrivial:
        meta["vacuous"] = "no placement observed"
    return col, meta


def replay(v):
    return stepcheck.replay(v, MONS)
