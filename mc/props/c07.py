"""C07 - cost accounting adds up at every level."""
import itertools

from .. import families as F, monitors as M, stepcheck

MONS = [M.mon_c07]


def items(tier):
    out = []
    rates = (0.0, 1.0, 2.5)
    flows = list(F.flows(3, ("FS",), (1, 2)))
    if tier == "quick":
        flows = flows[::3]
    for fl in flows:
        for r0, r1, r2 in itertools.product(rates, repeat=3):
            if tier == "quick" and (r0, r1, r2) not in ((0.0, 1.0, 2.5), (2.5, 2.5, 0.0), (1.0, 0.0, 1.0), (0.0, 0.0, 0.0)):
                continue
            names = [t["name"] for t in fl["tasks"]]
            full = {nm: 1.0 for nm in names}
            sp = dict(fl)
            sp["teams"] = [
                {"name": "TM0", "targets": [0, 1], "workers": [{"name": "W0", "skills": dict(full), "cost": r0}, {"name": "W1", "skills": dict(full), "cost": r1}]},
                {"name": "TM1", "targets": [1, 2], "workers": [{"name": "W2", "skills": dict(full), "cost": r2}]},
                {"name": "TM2", "targets": [], "workers": []},
            ]
            for mt in (None, 2):
                out.append((sp, {"rule": "TSLACK", "max_time": mt if mt is not None else F.seq_bound(sp) + 8}))
    # tasks that run out of work and are held WORKING by an FF/SF link (their resources keep being charged while they are logged WORKING)
    for fl in list(F.flows(3, ("FF", "SF", "SS"), (1, 3)))[:: (5 if tier == "quick" else 1)]:
        if not fl["links"]:
            continue
        sp = F.with_teams(fl, "DED")
        out.append((sp, {"rule": "TSLACK", "max_time": F.seq_bound(sp) + 8}))
    for sp in F.ff_held_component_specs() + [F.loaned_worker_spec()]:
        out.append((sp, {"rule": "TSLACK", "max_time": F.seq_bound(sp) + 8}))
    # resources sharing a name (the constructor default gives every unnamed worker / facility the same name): IDs differ
    for r0, r1 in ((4.0, 6.0), (0.0, 3.0), (2.0, 2.0)):
        for par in (True, False):
            sp = {"tasks": [{"name": "T0", "work": 2.0}, {"name": "T1", "work": 3.0, "nf": True}], "links": [] if par else [[0, 1, "FS"]],
                  "components": [{"name": "C1", "tasks": [1]}],
                  "workplaces": [{"name": "WP0", "cap": 1.0, "targets": [1], "facilities": [{"name": "New Facility", "id": "F0", "skills": {"T1": 1.0}, "cost": r0},
                                                                                          {"name": "New Facility", "id": "F1", "skills": {"T1": 1.0}, "cost": r1}]}],
                  "teams": [{"name": "TM0", "targets": [0, 1], "workers": [{"name": "New Worker", "id": "W0", "skills": {"T0": 1.0, "T1": 1.0}, "fskills": {"New Facility": 1.0}, "cost": r0},
                                                                          {"name": "New Worker", "id": "W1", "skills": {"T0": 1.0, "T1": 1.0}, "fskills": {"New Facility": 1.0}, "cost": r1},
                                                                          {"name": "New Worker", "id": "W2", "skills": {"T0": 1.0, "T1": 1.0}, "fskills": {"New Facility": 1.0}, "cost": 1.5}]}]}
            out.append((sp, {"rule": "TSLACK", "max_time": 14}))
    for sp in F.fac_specs(tier):
        sp = dict(sp)
        out.append((sp, {"rule": "TSLACK", "max_time": F.seq_bound(sp) + 8}))
    # two workers whose log lists are the same objects before the run (a clone made with copy.copy)
    sp = F.with_teams({"tasks": [{"name": "T0", "work": 2.0}, {"name": "T1", "work": 3.0}], "links": []}, "POOL2")
    sp["teams"][0]["workers"][1]["share_logs_with"] = "W0"
    out.append((sp, {"rule": "TSLACK", "max_time": 12}))
    # parent teams / parent workplaces three levels deep
    for rates in ((7.0, 3.0, 2.0), (0.0, 0.0, 5.0)):
        out.append((F.team_hierarchy_spec(rates), {"rule": "TSLACK", "max_time": 12}))
    # the automatic-task flag set (with and without automatic tasks in the model)
    for sp, o in list(out)[:: (15 if tier == "quick" else 5)]:
        out.append((sp, dict(o, auto_abs=True)))
    for sp in F.auto_component_specs()[:2]:
        out.append((sp, {"rule": "TSLACK", "auto_abs": True, "max_time": F.seq_bound(sp) + 12}))
    return out


def option_items(tier):
    """other ways of calling simulate(): a step width other than 1, and runs continued after a stop (state and logs kept)"""
    out = []
    base = [it for it in items(tier) if it[1]["max_time"] > 2]
    for sp, o in base[:: (9 if tier == "quick" else 3)]:
        out.append((sp, dict(o, unit_time=2, max_time=o["max_time"] * 2)))
        out.append((sp, dict(o, unit_time=3, max_time=o["max_time"] * 3)))
        for k in (1, 2, 3):
            out.append((sp, dict(o, resume_from=k)))
        out.append((sp, dict(o, reload=True)))
        out.append((sp, dict(o, presim=1, presim_queries=True)))  # a second run after every read-only helper was called once
        for lst in ([1], [2, 1], [3, 1, 2], [0, 2]):
            out.append((sp, dict(o, post_insert=lst)))
            out.append((sp, dict(o, post_insert=lst, reload=True)))
        # absence steps deleted from the result afterwards; the list given to simulate() may name steps beyond the end of the run
        for lst in ([1, 3], [1], [3, 3, 1]):
            out.append((sp, dict(o, absence=[1], post_insert=lst)))  # (step 1 is an absence step already)
        for lst in ([1], [0, 2], [1, 50], [2, 3, 60], [70], [2, 1, 2], [1, 1], [0, 3, 0, 3]):
            out.append((sp, dict(o, absence=lst, post_remove=True)))
        # a holiday inserted before the ones the run had, then "the absence steps" deleted: the stored list names a worked step by then; whatever is deleted is deleted at every level
        for ab, ins in (([3], [1]), ([2], [0]), ([1, 4], [2]), ([2], [1, 2])):
            out.append((sp, dict(o, absence=ab, post_insert=ins, post_remove="after-insert")))
    # runs stopped at step k and continued in a new project read from the JSON written at the stop; continued with the states kept and the logs started afresh
    for sp, o in base[:: (7 if tier == "quick" else 2)]:
        for k in (1, 2, 3):
            out.append((sp, dict(o, resume_from=k, resume_via_json=True)))
            if not o.get("absence") and not o.get("res_absence"):
                out.append((sp, dict(o, resume_from=k, restart_flags=[False, True])))
    # the project calendar handed over as floats or numpy integers of the same values
    for sp, o in base[:: (7 if tier == "quick" else 2)]:
        for ab in ([1, 2], [0, 3], [2]):
            for how in ("float", "numpy"):
                out.append((sp, dict(o, absence=ab, absence_as=how)))
    # the public log reversal called by hand (once, twice) on forward results with and without absence steps
    for sp, o in base[:: (7 if tier == "quick" else 2)]:
        for n in (1, 2):
            for ab in ([], [1, 2], [0, 3]):
                out.append((sp, dict(o, absence=ab, post_reverse=n)))
                out.append((sp, dict(o, absence=ab, post_reverse=n, post_remove="after-insert")))
    # a whole calendar entered at once after the run (16 to 30 steps in one call) on the larger models
    wk = [d for w in range(12) for d in (7 * w + 5, 7 * w + 6)]
    for sp, o in F.large_items(("TSLACK",)):
        if not o["absence"]:
            for lst in (wk[:16], wk[:22], wk[:15], list(range(3, 33)), wk[:22][::-1]):
                out.append((sp, dict(o, post_insert=lst)))
    # backward runs (logs reversed into forward-time reading, and left as they are) of models whose cost profile is not a palindrome
    back = [it for it in items(tier) if it[0].get("workplaces") and it[1]["max_time"] > 2][:: (3 if tier == "quick" else 1)]
    back += [(F.two_team_workplace_spec(), {"rule": "TSLACK", "max_time": 20})] + [(sp, {"rule": "TSLACK", "max_time": 30}) for sp in F.rule_sensitive_specs() if sp["label"].startswith("pairs")]
    for sp, o in back:
        for rev in (True, False):
            for due in (False, True):
                out.append((sp, dict(o, backward=True, rev=rev, due=due)))
    return out


def run(tier, seed):
    H, D = (4, 1) if tier == "quick" else (4, 2)
    its = items(tier)
    col = stepcheck.explore(its, MONS, H, D, seed=seed, max_group=1 if tier == "quick" else 2)
    oi = option_items(tier)
    col.merge(stepcheck.explore(oi, MONS, 0, 0, seed=seed))
    # rates agreed at a stop (or between two runs) for resources that have not worked yet
    col.merge(stepcheck.explore(stepcheck.resumed_edit_items(("set-rates",), ks=(1, 2, 3, 4)) + stepcheck.resumed_edit_items(("untarget-running-task",), ks=(2, 3)) + stepcheck.edited_items(names=("set-rates",)), MONS, 0, 0, seed=seed))
    col.merge(stepcheck.explore(F.scale_items(("TSLACK",)), MONS, 0, 0, seed=seed))  # medium-sized models (10-14 tasks / workers / machines), long absence lists
    col.merge(stepcheck.explore(F.extra_items(("TSLACK",), calendars=True), MONS, 0, 0, seed=seed))  # other ways of building the object graph; continuations under a revised calendar
    meta = {
        "level": "model_checking",
        "rule": "FS workflows on 3 tasks x all cost-rate triples over {0,1,2.5} in two teams plus an empty team (runs to completion and runs cut by max_time=2 -> FAILURE) "
        "models whose workers and facilities share one name (different IDs), and the FAC family (workplaces with facilities of rates 1 and 2), each explored over all absence answers (project, each worker, each facility; thorough: also pairs) "
        "up to horizon H with <= D non-default answers; non-trivial = distinct (model, resource, charged rate>0, at-absence-step) events",
        "bounds": {"H": H, "D": D, "base_models": len(its), "option_variants(unit_time 2/3, resumed at 1/2/3, absence steps inserted / removed afterwards, loaded from JSON, backward runs)": len(oi)},
        "assumptions": ["cost oracle reads the state logs; their agreement with the live state is C08's job"],
    }
    if not col.nontrivial:
        meta["vacuous"] = "no positive charge observed"
    return col, meta


def replay(v):
    return stepcheck.replay(v, MONS)
