"""C15 - a run paused at any step and resumed gives exactly the uninterrupted result."""
import os
import shutil
import tempfile

from .. import engines, families as F, runner, spec as S
from .c09 import jdump, first_diff
from pDESy.model.base_project import BaseProject


def uses_only_saved_settings(spec):
    """everything the spec builder can set is part of the saved format, except the file a sub-project task points to"""
    if any(t.get("sub") for t in spec["tasks"]):
        return False
    return True


def work(chunk):
    col = engines.Collector()
    tmpdir = tempfile.mkdtemp(prefix="verif-c15-")
    try:
        for spec, opts in chunk:
            key = hash(repr(spec) + repr(opts))
            kw = runner.sim_kwargs(opts)
            backward = bool(opts.get("backward"))
            if backward:
                kw["reverse_log_information"] = False  # (a run that is going to be continued keeps its logs in simulation order)

            def go(project, **k):
                return project.backward_simulate(**k) if backward else project.simulate(**k)

            full = runner.prepare(spec, opts)
            try:
                go(full.project, **kw)
            except Exception as e:
                col.aborted["%s in uninterrupted run" % type(e).__name__] += 1
                continue
            col.evaluations += 1
            ref = jdump(full)
            mk = full.project.time
            col.outcomes[(mk, int(full.project.status))] += 1
            via_json = uses_only_saved_settings(spec)
            for k in range(0, min(mk + 1, kw["max_time"]) + 1):
                for mode in (("memory", "json", "looked-at") if via_json else ("memory", "looked-at")):
                    if mode == "looked-at" and not opts.get("looked_at"):
                        continue  # (the looked-at mode is taken for the items marked for it: the same list in both tiers)
                    m = runner.prepare(spec, opts)
                    try:
                        go(m.project, **dict(kw, max_time=k))
                        if mode == "looked-at":
                            runner.read_only_calls(m.project)  # queries, chart data builders and printing helpers at the pause: reading must not change what follows
                        if mode == "json":
                            path = os.path.join(tmpdir, "p%d.json" % os.getpid())
                            m.project.write_simple_json(path)
                            p2 = BaseProject()
                            p2.read_simple_json(path)
                            m = S.adopt(p2)
                        go(m.project, **dict(kw, initialize_state_info=False, initialize_log_info=False))
                    except Exception as e:
                        col.violation({"property": "C15", "sig": "C15:resume-raised:%s:%s" % (mode, type(e).__name__), "kind": "pause", "spec": spec, "opts": opts, "k": k, "mode": mode, "detail": repr(e)})
                        continue
                    col.evaluations += 1
                    col.checks["c15." + mode] += 1
                    col.transitions.add(hash((key, k, mode)))
                    got = jdump(m)
                    col.states.add(hash((key, k)))
                    if 0 < k < mk:
                        col.nontrivial.add(hash((key, k, mode)))
                    if got != ref:
                        d = first_diff(ref, got)
                        where = "at-step-0" if k == 0 else ("at-or-after-end" if k >= mk else "mid-run")
                        col.violation({"property": "C15", "sig": "C15:resumed-run-differs:%s:%s:%s" % (mode, where, d[0][0] if d else "?"), "kind": "pause", "spec": spec, "opts": opts, "k": k, "mode": mode,
                                       "detail": {"first_difference(path, uninterrupted, resumed)": d, "makespan": mk}})
            if len(col.samples) < 2:
                col.samples.append({"spec": spec, "opts": opts, "pause_steps": list(range(0, mk + 2)), "modes": ["memory", "json"] if via_json else ["memory"]})
    finally:
        shutil.rmtree(tmpdir, ignore_errors=True)
    return col


def items(tier):
    out = []
    flows = list(F.flows(3, F.KINDS4, (1, 2) if tier == "quick" else (1, 2, 3)))
    if tier == "quick":
        flows = flows[::2]
    for fl in flows:
        for lay in ("POOL2", "DED"):
            sp = F.with_teams(fl, lay)
            for rule in (("TSLACK", "FIFO", "LWRPT") if tier == "quick" else ("TSLACK", "SPT", "FIFO", "LRPT", "LWRPT", "SWRPT")):
                out.append((sp, {"rule": rule, "max_time": F.seq_bound(sp) + 8}))
            out.append((sp, {"rule": "TSLACK", "absence": [1], "res_absence": {"W0": [0, 2]}, "max_time": F.seq_bound(sp) + 10}))
            if any(k in ("FF", "SF") for _, _, k in fl["links"]):
                # successors listed before their predecessors in workflow.task_list
                out.append((dict(sp, order=[2, 1, 0]), {"rule": "TSLACK", "max_time": F.seq_bound(sp) + 8}))
    for fl in list(F.flows(3, ("FS", "SS"), (2,))):
        sp = F.with_teams(fl, "POOL2")
        sp = dict(sp, tasks=[dict(t) for t in sp["tasks"]])
        sp["tasks"][1]["auto"] = True
        sp["tasks"][0]["progress"] = 0.5
        for aa in (False, True):
            out.append((sp, {"rule": "TSLACK", "absence": [0, 2], "auto_abs": aa, "max_time": F.seq_bound(sp) + 10}))
    for sp in F.rule_sensitive_specs() + [F.idle_component_spec(), F.shared_child_spec(), F.float_noise_spec()] + F.three_level_product_specs():
        out.append((sp, {"rule": "TSLACK", "max_time": F.seq_bound(sp) + 8}))
    for sp in F.float_order_specs() + F.same_name_workplace_specs()[:4] + [F.shared_id_spec(), F.waiting_component_spec()] + F.auto_placement_specs()[:3]:
        out.append((sp, {"rule": "TSLACK", "max_time": F.seq_bound(sp) + 8}))
    for sp in F.nested_order_specs() + [F.loaned_worker_spec()] + F.two_pair_specs() + F.double_link_specs()[::5]:
        out.append((sp, {"rule": "TSLACK", "max_time": F.seq_bound(sp) + 8}))
    # other ways of building the object graph (copy twins, subclasses, bottom-up assembly, late calendars) and teams that know their tasks through the constructor keyword only
    for sp in F.usage_specs():
        if "parent-child:one-cap1" not in sp["label"] and ("bottom-up:fac" not in sp["label"] or sp["label"].endswith("two:both")):
            out.append((sp, {"rule": "TSLACK", "max_time": F.seq_bound(sp) + 10}))
    for fl in list(F.flows(3, ("FS", "SS"), (2, 3)))[::3]:
        sp = F.with_teams(fl, "TWOTEAM")
        out.append((dict(sp, teams=[dict(tm, wire="ctor") for tm in sp["teams"]]), {"rule": "TSLACK", "max_time": F.seq_bound(sp) + 10}))
    # models whose paused state is also looked at through every read-only helper before the run goes on (mode "looked-at")
    for sp, o in F.looked_at_items():
        if o.get("resume_from") == 1 and not o.get("absence"):
            out.append((sp, {"rule": "TSLACK", "max_time": o["max_time"], "looked_at": True}))
    out.append((F.long_idle_spec(130), {"rule": "TSLACK", "max_time": 160}))  # more than a hundred idle steps in the middle of the run
    for sp, o in F.scale_items():
        if not o.get("res_absence") and o["absence"] in ([], F.SCALE_ABSENCE[1]) and (tier == "thorough" or sp["label"] in ("scale:long-unsorted-calendars", "scale:8components", "scale:layers3x4", "scale:queue-of-nine")):
            out.append((sp, o))
    for fl in list(F.flows(3, ("FS", "SS"), (2,)))[::3]:
        sp = F.with_teams(fl, "POOL2")
        sp = dict(sp, teams=[dict(tm, workers=[dict(w, cost=c) for w, c in zip(tm["workers"], (0.1, 0.2))]) for tm in sp["teams"]])
        out.append((sp, {"rule": "TSLACK", "max_time": F.seq_bound(sp) + 8}))  # 0.1 + 0.2 charged in one step
    # unlimited workplaces holding several components; conveyor layouts whose workplaces are listed successors-first; the same for backward runs
    for sp0 in F.fac_specs("quick"):
        if sp0["label"] in ("fac:2:per-task:one-cap2:plain:both", "fac:2:per-task:one-cap2:two:both"):
            out.append((dict(sp0, workplaces=[dict(wp, cap="inf") for wp in sp0["workplaces"]]), {"rule": "TSLACK", "max_time": F.seq_bound(sp0) + 8}))
    names = ["T0", "T1", "T2", "T3"]
    full4 = {nm: 1.0 for nm in names}
    lanes = {"tasks": [{"name": "T0", "work": 1.0, "nf": True}, {"name": "T1", "work": 2.0, "nf": True}, {"name": "T2", "work": 2.0, "nf": True}, {"name": "T3", "work": 1.0, "nf": True}],
             "links": [[0, 1, "FS"], [2, 3, "FS"]], "components": [{"name": "C0", "tasks": [0, 1]}, {"name": "C1", "tasks": [2, 3]}],
             "workplaces": [{"name": "B1", "cap": 1.0, "targets": [1, 3], "inputs": [2], "facilities": [{"name": "FB1", "skills": dict(full4)}]},
                            {"name": "B2", "cap": 1.0, "targets": [1, 3], "inputs": [3], "facilities": [{"name": "FB2", "skills": dict(full4)}]},
                            {"name": "A1", "cap": 1.0, "targets": [0, 2], "facilities": [{"name": "FA1", "skills": dict(full4)}]},
                            {"name": "A2", "cap": 1.0, "targets": [0, 2], "facilities": [{"name": "FA2", "skills": dict(full4)}]}],
             "teams": [{"name": "TM0", "targets": [0, 1, 2, 3], "workers": [{"name": "W%d" % i, "skills": dict(full4), "fskills": {"FA1": 1.0, "FA2": 1.0, "FB1": 1.0, "FB2": 1.0}} for i in range(2)]}]}
    out.append((lanes, {"rule": "TSLACK", "max_time": 20}))
    for sp, o in [(lanes, {"rule": "TSLACK", "max_time": 20})] + [it for it in out if it[0].get("workplaces")][:: (15 if tier == "quick" else 4)] + [it for it in out if not it[0].get("workplaces")][:: (40 if tier == "quick" else 9)]:
        if not o.get("absence") and not o.get("res_absence"):
            out.append((sp, dict(o, backward=True)))
    # a step width other than 1 (pause steps on and off the time grid)
    for sp, o in list(out)[:: (23 if tier == "quick" else 7)]:
        for u in (2, 3):
            out.append((sp, dict(o, unit_time=u, max_time=o["max_time"] * u)))
    for sp in F.fac_specs(tier):
        out.append((sp, {"rule": "TSLACK", "max_time": F.seq_bound(sp) + 8}))
        if tier == "thorough":
            out.append((sp, {"rule": "TSLACK", "absence": [1], "res_absence": {"F0": [0]}, "max_time": F.seq_bound(sp) + 10}))
    return out


def run(tier, seed):
    its = items(tier)
    col = engines.fanout(its, work, seed=seed)
    meta = {
        "level": "fault_enumeration",
        "rule": "crash-point enumeration: for every model of a mixed family (3-task workflows over the four dependency kinds x {POOL2,DED} x rules, with project/worker absences, automatic and half-done tasks, "
        "the FAC facility family, unlimited workplaces, conveyor lanes listed successors-first, backward runs (paused and continued with the logs left in simulation order), order-sensitive float skill sums, same-named workplaces, shared worker/facility IDs, unit_time 2 and 3) EVERY pause step k in 0..makespan+1 is taken (simulate(max_time=k)) and the run is continued with state and log initialisation off, in memory and - for models whose "
        "settings are part of the saved format - through write_simple_json/read_simple_json into a new project; the complete dump (all logs, costs, time, status, live state) must equal the uninterrupted run; "
        "non-trivial = distinct (model, mid-run pause step, mode)",
        "bounds": {"models": len(its), "pause_steps": "all of 0..makespan+1"},
        "assumptions": ["JSON variant skipped only for models with sub-project tasks"],
    }
    if col.checks["c15.json"] == 0:
        meta["vacuous"] = "json variant never ran"
    return col, meta


def replay(v):
    col = work([(v["spec"], v["opts"])])
    return [x for x in col.violations if x.get("k") == v.get("k") and x.get("mode") == v.get("mode")]
