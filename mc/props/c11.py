"""C11 - priority rules order candidates as documented and allocation never inverts them."""
import itertools

from .. import engines, families as F, monitors as M, spec as S, stepcheck
from ..info import EPS, Info
from .. import bootstrap  # noqa: F401
from pDESy.model.base_facility import BaseFacility
from pDESy.model.base_priority_rule import (
    ResourcePriorityRuleMode,
    TaskPriorityRuleMode,
    WorkplacePriorityRuleMode,
    sort_facility_list,
    sort_task_list,
    sort_worker_list,
    sort_workplace_list,
)
from pDESy.model.base_task import BaseTask, BaseTaskState
from pDESy.model.base_worker import BaseWorker
from pDESy.model.base_workflow import BaseWorkflow
from pDESy.model.base_workplace import BaseWorkplace
from pDESy.model.base_component import BaseComponent

NEG = -float("inf")


def is_perm(inp, out):
    return len(inp) == len(out) and sorted(map(id, inp)) == sorted(map(id, out))


def monotone(keys, descending=False):
    for a, b in zip(keys, keys[1:]):
        if (a < b) if descending else (a > b):
            return False
    return True


def viol(sig, detail):
    return {"property": "C11", "sig": sig, "kind": "sort", "detail": detail}


# ---------------------------------------------------------------- tasks
TASK_KEY = {
    "TSLACK": (lambda t: t.lst - t.est, False),
    "EST": (lambda t: t.est, False),
    "SPT": (lambda t: t.default_work_amount, False),
    "LPT": (lambda t: t.default_work_amount, True),
    "FIFO": (lambda t: sum(1 for s in t.state_record_list if s == BaseTaskState.READY), True),
    "LRPT": (lambda t: t.remaining_work_amount, True),
    "SRPT": (lambda t: t.remaining_work_amount, False),
    "LWRPT": (lambda t: t.parent_workflow.critical_path_length, True),
    "SWRPT": (lambda t: t.parent_workflow.critical_path_length, False),
}


def make_task(i, mode, a, b):
    t = BaseTask("T%d" % i, ID="T%d" % i)
    wf = BaseWorkflow([t])
    if mode == "TSLACK":
        t.lst, t.est = float(a), float(b)
    elif mode == "EST":
        t.est, t.lst = float(a), float(b)
    elif mode in ("SPT", "LPT"):
        t.default_work_amount, t.remaining_work_amount = float(a), float(b)
    elif mode == "FIFO":
        # b == 2: the task started and was logged READY again afterwards (as at project-wide absence steps)
        t.state_record_list = [BaseTaskState.READY] * a + ([BaseTaskState.NONE, BaseTaskState.WORKING][:b] if b < 2 else [BaseTaskState.WORKING] + [BaseTaskState.READY] * (2 - a % 2))
    elif mode in ("LRPT", "SRPT"):
        t.remaining_work_amount, t.default_work_amount = float(a), float(b)
    else:
        wf.critical_path_length = float(a)
        t.remaining_work_amount = float(b)
    return t


def work_tasks(chunk):
    col = engines.Collector()
    for mode, n in chunk:
        alpha = list(itertools.product((0, 1, 2), repeat=2))
        keyf, desc = TASK_KEY[mode]
        for combo in itertools.product(alpha, repeat=n):
            tasks = [make_task(i, mode, a, b) for i, (a, b) in enumerate(combo)]
            col.evaluations += 1
            col.checks["c11.sort_task_list"] += 1
            try:
                res = sort_task_list(list(tasks), S.TASK_RULES[mode])
            except Exception as e:
                col.violation(viol("C11:sort_task_list-raised:%s:%s" % (mode, type(e).__name__), {"mode": mode, "input": combo, "error": repr(e)}))
                continue
            keys = [keyf(t) for t in res]
            col.states.add(hash((mode, combo)))
            if len(set(keys)) > 1:
                col.nontrivial.add(hash((mode, combo)))
            if not is_perm(tasks, res):
                col.violation(viol("C11:sort_task_list-not-a-permutation:%s" % mode, {"mode": mode, "input": combo}))
            elif not monotone(keys, desc):
                col.violation(viol("C11:sort_task_list-wrong-order:%s" % mode, {"mode": mode, "input(key fields)": combo, "result_keys": keys, "expected": "descending" if desc else "ascending"}))
            col.transitions.add(hash((mode, combo, tuple(t.ID for t in res))))
    return col


# ---------------------------------------------------------------- workers
def fresh(s):
    """an equal string that is a different object"""
    return "".join(list(s))


MAINS = ("none", "same-object", "equal-distinct", "other")
TARGET_WP = "WP-target"


def make_worker(i, skills, cost, target_skill, main):
    sk = {"x%d" % k: float(v) for k, v in enumerate(skills)}
    if target_skill is not None:
        sk["T"] = float(target_skill)
    mw = {"none": None, "same-object": TARGET_WP, "equal-distinct": fresh(TARGET_WP), "other": "WP-other"}[main]
    return BaseWorker("W%d" % i, ID="W%d" % i, workamount_skill_mean_map=sk, cost_per_time=float(cost), main_workplace_id=mw)


def worker_primary(mode, w, target):
    if mode == "MW":
        return 0 if (w.main_workplace_id == target) else 1
    if mode == "SSP":
        return sum(w.workamount_skill_mean_map.values())
    if mode == "VC":
        return w.cost_per_time
    if mode == "HSV":
        return -w.workamount_skill_mean_map.get("T", NEG)


def work_workers(chunk):
    col = engines.Collector()
    for mode, n, with_target in chunk:
        alpha = []
        for other in (0, 1):
            for cost in (0, 1):
                for ts in (None, 0, 1, 2):
                    for main in MAINS:
                        alpha.append((other, cost, ts, main))
        # reduce: only the fields the mode reads vary fully, the rest takes two values
        if mode == "MW":
            alpha = [a for a in alpha if a[1] == 0 and a[2] in (None, 1)]
            alpha += [(12, 0, a[2], a[3]) for a in alpha if a[0] == 1]  # a generalist whose skill points add up to far more than the others'

        elif mode == "SSP":
            alpha = [a for a in alpha if a[1] == 0 and a[3] in ("none", "equal-distinct")]
        elif mode == "VC":
            alpha = [a for a in alpha if a[2] in (None, 1) and a[3] in ("none", "equal-distinct")]
        elif mode == "HSV":
            alpha = [a for a in alpha if a[1] == 0 and a[3] in ("none", "equal-distinct")]
        target = TARGET_WP if with_target else None
        for combo in itertools.product(alpha, repeat=n):
            ws = [make_worker(i, (o,), c, ts, mn) for i, (o, c, ts, mn) in enumerate(combo)]
            col.evaluations += 1
            col.checks["c11.sort_worker_list"] += 1
            kwargs = {"name": "T"}
            if with_target:
                kwargs["workplace_id"] = target
            try:
                res = sort_worker_list(list(ws), S.RES_RULES[mode], **kwargs)
            except Exception as e:
                col.violation(viol("C11:sort_worker_list-raised:%s:%s" % (mode, type(e).__name__), {"mode": mode, "input": combo, "error": repr(e)}))
                continue
            keys = [worker_primary(mode, w, target) for w in res]
            col.states.add(hash((mode, with_target, combo)))
            if len(set(keys)) > 1:
                col.nontrivial.add(hash((mode, with_target, combo)))
            if not is_perm(ws, res):
                col.violation(viol("C11:sort_worker_list-not-a-permutation:%s" % mode, {"mode": mode, "input": combo}))
            elif not monotone(keys):
                eqd = any(c[3] == "equal-distinct" for c in combo)
                col.violation(viol("C11:sort_worker_list-wrong-order:%s%s" % (mode, ":main_workplace_id-equal-but-not-identical-string" if (mode == "MW" and eqd) else ""),
                                   {"mode": mode, "target_workplace": target, "input(other skill, cost, target skill, main workplace)": combo, "result_keys": keys}))
            col.transitions.add(hash((mode, with_target, combo, tuple(w.ID for w in res))))
    return col


# ---------------------------------------------------------------- facilities / workplaces
def work_fac_wp(chunk):
    col = engines.Collector()
    for kind, mode, n in chunk:
        if kind == "facility":
            alpha = [(o, c, ts) for o in (0, 1) for c in (0, 1, 2) for ts in (None, 0, 1, 2)]
            for combo in itertools.product(alpha, repeat=n):
                fs = []
                for i, (o, c, ts) in enumerate(combo):
                    sk = {"x": float(o)}
                    if ts is not None:
                        sk["T"] = float(ts)
                    fs.append(BaseFacility("F%d" % i, ID="F%d" % i, workamount_skill_mean_map=sk, cost_per_time=float(c)))
                col.evaluations += 1
                col.checks["c11.sort_facility_list"] += 1
                try:
                    res = sort_facility_list(list(fs), S.RES_RULES[mode], name="T")
                except Exception as e:
                    col.violation(viol("C11:sort_facility_list-raised:%s:%s" % (mode, type(e).__name__), {"mode": mode, "input": combo, "error": repr(e)}))
                    continue
                if mode == "SSP":
                    keys = [sum(f.workamount_skill_mean_map.values()) for f in res]
                elif mode == "VC":
                    keys = [f.cost_per_time for f in res]
                elif mode == "HSV":
                    keys = [-f.workamount_skill_mean_map.get("T", NEG) for f in res]
                else:
                    keys = [0 for f in res]  # MW has no meaning for facilities: any permutation is accepted
                col.states.add(hash((kind, mode, combo)))
                if len(set(keys)) > 1:
                    col.nontrivial.add(hash((kind, mode, combo)))
                if not is_perm(fs, res):
                    col.violation(viol("C11:sort_facility_list-not-a-permutation:%s" % mode, {"mode": mode, "input": combo}))
                elif not monotone(keys):
                    col.violation(viol("C11:sort_facility_list-wrong-order:%s" % mode, {"mode": mode, "input(other skill, cost, target skill)": combo, "result_keys": keys}))
                col.transitions.add(hash((kind, mode, combo, tuple(f.ID for f in res))))
        else:
            alpha = [(cap, used, ts) for cap in (1.0, 2.0) for used in (0, 1, 2) for ts in (None, 0, 1, 2)]  # (used 2 x 0.5 fills the workplace of capacity 1 exactly)
            for combo in itertools.product(alpha, repeat=n):
                wps = []
                for i, (cap, used, ts) in enumerate(combo):
                    sk = {} if ts is None else {"T": float(ts)}
                    wp = BaseWorkplace("WP%d" % i, ID="WP%d" % i, max_space_size=cap,
                                       facility_list=[BaseFacility("F%d" % i, ID="F%d" % i, workamount_skill_mean_map=sk), BaseFacility("G%d" % i, ID="G%d" % i, workamount_skill_mean_map=dict(sk))])
                    wp.placed_component_list = [BaseComponent("c", space_size=0.5) for _ in range(used)]
                    wps.append(wp)
                col.evaluations += 1
                col.checks["c11.sort_workplace_list"] += 1
                try:
                    res = sort_workplace_list(list(wps), S.WP_RULES[mode], name="T")
                except Exception as e:
                    col.violation(viol("C11:sort_workplace_list-raised:%s:%s" % (mode, type(e).__name__), {"mode": mode, "input": combo, "error": repr(e)}))
                    continue
                if mode == "FSS":
                    keys = [-(w.max_space_size - sum(c.space_size for c in w.placed_component_list)) for w in res]
                else:
                    keys = [-sum(f.workamount_skill_mean_map.get("T", 0.0) for f in w.facility_list if f.workamount_skill_mean_map.get("T", 0.0) > EPS) for w in res]
                col.states.add(hash((kind, mode, combo)))
                if len(set(keys)) > 1:
                    col.nontrivial.add(hash((kind, mode, combo)))
                if not is_perm(wps, res):
                    col.violation(viol("C11:sort_workplace_list-not-a-permutation:%s" % mode, {"mode": mode, "input": combo}))
                elif not monotone(keys):
                    col.violation(viol("C11:sort_workplace_list-wrong-order:%s" % mode, {"mode": mode, "input(capacity, placed, target skill)": combo, "result_keys": keys}))
                col.transitions.add(hash((kind, mode, combo, tuple(w.ID for w in res))))
                if mode == "FSS" and any(used for _, used, _ in combo):
                    # the placed parts are measured again after the first look (every other workplace's parts turn out half / twice as bulky) and the list is sorted again
                    for i, w in enumerate(wps):
                        for c in w.placed_component_list:
                            c.space_size = 0.25 if i % 2 == 0 else 1.0
                    col.checks["c11.sort_workplace_list-after-remeasuring"] += 1
                    try:
                        res = sort_workplace_list(list(wps), S.WP_RULES[mode], name="T")
                    except Exception as e:
                        col.violation(viol("C11:sort_workplace_list-raised:%s:%s" % (mode, type(e).__name__), {"mode": mode, "input": combo, "error": repr(e), "remeasured": True}))
                        continue
                    keys = [-(w.max_space_size - sum(c.space_size for c in w.placed_component_list)) for w in res]
                    if not is_perm(wps, res) or not monotone(keys):
                        col.violation(viol("C11:sort_workplace_list-wrong-order-after-parts-were-remeasured:%s" % mode, {"mode": mode, "input(capacity, placed, target skill)": combo, "result_keys": keys}))
                if mode == "SSP" and len(wps) > 1:
                    # a well equipped machine is delivered to the workplace that came last, and the list is sorted again
                    last = res[-1]
                    last.add_facility(BaseFacility("NEW", ID="NEW", workamount_skill_mean_map={"T": 7.0}))
                    col.checks["c11.sort_workplace_list-after-a-delivery"] += 1
                    try:
                        res = sort_workplace_list(list(wps), S.WP_RULES[mode], name="T")
                    except Exception as e:
                        col.violation(viol("C11:sort_workplace_list-raised:%s:%s" % (mode, type(e).__name__), {"mode": mode, "input": combo, "error": repr(e), "after_delivery": True}))
                        continue
                    keys = [-sum(f.workamount_skill_mean_map.get("T", 0.0) for f in w.facility_list if f.workamount_skill_mean_map.get("T", 0.0) > EPS) for w in res]
                    if not is_perm(wps, res) or not monotone(keys):
                        col.violation(viol("C11:sort_workplace_list-wrong-order-after-a-machine-was-delivered:%s" % mode, {"mode": mode, "input(capacity, placed, target skill)": combo, "result_keys": keys}))
            # several machines of one kind carry the same name (worker licences are keyed by the machine's name): 1, 2 or 4 "lathe"s per workplace, plus a differently named machine
            alpha2 = [(nf, ts, other) for nf in (1, 2, 4) for ts in (0.0, 1.0, 2.5) for other in (0.0, 1.5)]
            for combo in itertools.product(alpha2, repeat=min(n, 3)):
                wps = []
                for i, (nf, ts, other) in enumerate(combo):
                    fl = [BaseFacility("lathe", ID="L%d_%d" % (i, j), workamount_skill_mean_map={"T": ts}) for j in range(nf)] + [BaseFacility("saw", ID="S%d" % i, workamount_skill_mean_map={"T": other})]
                    wps.append(BaseWorkplace("WP%d" % i, ID="WP%d" % i, max_space_size=2.0, facility_list=fl))
                col.evaluations += 1
                col.checks["c11.sort_workplace_list"] += 1
                try:
                    res = sort_workplace_list(list(wps), S.WP_RULES[mode], name="T")
                except Exception as e:
                    col.violation(viol("C11:sort_workplace_list-raised:%s:%s" % (mode, type(e).__name__), {"mode": mode, "input": combo, "error": repr(e)}))
                    continue
                if mode == "FSS":
                    keys = [0 for w in res]
                else:
                    keys = [-sum(f.workamount_skill_mean_map.get("T", 0.0) for f in w.facility_list if f.workamount_skill_mean_map.get("T", 0.0) > EPS) for w in res]
                col.states.add(hash((kind, mode, "same-name", combo)))
                if len(set(keys)) > 1:
                    col.nontrivial.add(hash((kind, mode, "same-name", combo)))
                if not is_perm(wps, res):
                    col.violation(viol("C11:sort_workplace_list-not-a-permutation:%s" % mode, {"mode": mode, "input": combo}))
                elif not monotone(keys):
                    col.violation(viol("C11:sort_workplace_list-wrong-order:%s" % mode, {"mode": mode, "input(same-named machines, their skill, other machine's skill)": combo, "result_keys": keys}))
    return col


# ---------------------------------------------------------------- allocation never inverts priorities
def task_key(rule, info, tn, sn, ex, t):
    tv = sn["tasks"][tn]
    work = info.tasks[tn].get("work", 1.0)
    if rule == "TSLACK":
        return tv[6] - tv[4]
    if rule == "EST":
        return tv[4]
    if rule == "SPT":
        return work
    if rule == "LPT":
        return -work
    if rule == "FIFO":
        log = ex.m.byname[tn].state_record_list[:t]
        return -sum(1 for s in log if int(s) == S.T_READY)
    if rule == "LRPT":
        return -tv[1]
    if rule == "SRPT":
        return tv[1]
    return 0.0  # LWRPT / SWRPT: one workflow, all tie


def mon_c11(ex, info, col):
    out = []
    rule = ex.opts.get("rule", "TSLACK")
    bs = ex.by_step()
    for t in sorted(bs):
        phs = bs[t]
        if "updated" not in phs or "allocated" not in phs:
            continue
        su = phs["updated"][1]
        working, sa = phs["allocated"]
        if not working:
            continue
        # claimants: READY / WORKING tasks - and tasks the library still shows as NONE although every DECLARED start dependency holds (the links as the user
        # declared them decide who competes, not the copies the library keeps of them)
        cands = [tn for tn in info.tnames if not info.is_auto(tn) and (su["tasks"][tn][0] in (S.T_READY, S.T_WORKING)
                 or (su["tasks"][tn][0] == S.T_NONE and not info.prefinished(tn) and info.preds[tn] and M.start_deps_hold(info, tn, su)))]
        if len(cands) < 2:
            continue
        keys = {tn: task_key(rule, info, tn, su, ex, t) for tn in cands}
        for low in cands:
            new_w = [w for w in sa["tasks"][low][2] if w not in su["tasks"][low][2]]
            for w in new_w:
                for high in cands:
                    if not keys[high] < keys[low] - 1e-9:
                        continue
                    col.checks["c11.inversion-candidates"] += 1
                    col.nontrivial.add(hash((info.key, rule, low, high, w, round(keys[low], 6), round(keys[high], 6))))
                    if info.worker_static_ok(w, high) is not None:
                        continue
                    hw = sa["tasks"][high][2]
                    hf = sa["tasks"][high][3]
                    if w in hw:
                        continue
                    if any(info.is_solo(x) for x in hw) or any(info.is_solo(x) for x in hf):
                        continue
                    if info.is_solo(w) and hw:
                        continue
                    pair = None
                    if info.needs_facility(high):
                        # the higher-priority task needs a (worker, facility) pair: claimed for single-task components
                        # that are placed, when a FREE eligible facility the worker can operate is still there
                        cn = info.task_comp.get(high)
                        if cn is None:
                            continue
                        if len(info.comp_tasks[cn]) != 1:
                            # a component with several tasks: claimed only when it already stood (and stays) where the task can be served and none of its other tasks is active
                            others = [x for x in info.comp_tasks[cn] if x != high]
                            if su["components"][cn][1] is None or su["components"][cn][1] != sa["components"][cn][1] or info.comp_children.get(cn) \
                                    or any(sa["tasks"][x][0] in (S.T_READY, S.T_WORKING) for x in others):
                                continue
                        if info.comp_parents.get(cn) or (sa["components"][cn][1] != su["components"][cn][1] and su["components"][cn][1] is not None):
                            continue  # (a part may be carried along with its assembly later in the same allocation: where it is at the end of the step says nothing about its own turn)
                        wpn = sa["components"][cn][1]
                        if wpn is None:
                            # (a single-task component is carried in at its own task's turn, before machines are searched: still nowhere although an assigned
                            #  workplace has room and a FREE machine this worker can operate means the higher-priority task was passed over)
                            if hw or hf:
                                continue
                            got_ = M.carry_in_pair(ex, info, sa, cn, high, w, t)
                            if got_ is None:
                                continue
                            out.append(M.V("C11", "C11:allocation-inverted-priority:%s" % rule, ex,
                                           {"t": t, "worker": w, "given_to": low, "key_low": keys[low], "higher_priority_task": high, "key_high": keys[high], "workers_of_high": hw,
                                            "free_facility_for_high": got_[1], "component_could_be_carried_into": got_[0]}))
                            continue
                        for f in info.wp_facilities.get(wpn, []):
                            fst, fa = sa["facilities"][f]
                            if fst != S.R_FREE or fa or M.res_absent(ex, info, f, t):
                                continue
                            if info.facility_static_ok(f, high) is not None or not info.can_operate(w, f):
                                continue
                            if info.is_solo(f) and hf:
                                continue
                            pair = f
                            break
                        if pair is None:
                            continue
                    out.append(M.V("C11", "C11:allocation-inverted-priority:%s" % rule, ex,
                                   {"t": t, "worker": w, "given_to": low, "key_low": keys[low], "higher_priority_task": high, "key_high": keys[high], "workers_of_high": hw, "free_facility_for_high": pair}))
    return out


def mon_rules_accepted(ex, info, col):
    """every rule value must be accepted where allocation uses it (no exception out of the sort functions)"""
    col.checks["c11.rule-accepted-in-allocation"] += 1
    t0 = info.spec["tasks"][0]
    col.nontrivial.add(hash((info.key, t0.get("wrule"), t0.get("frule"), t0.get("wprule"))))
    if ex.error is not None and "base_priority_rule" in ex.error:
        site = ex.error.split("@")[-1].strip()
        return [M.V("C11", "C11:rule-not-accepted-in-allocation:%s:%s" % (ex.error.split(":")[0], site), ex,
                    {"error": ex.error, "rules(worker, facility, workplace)": [t0.get("wrule"), t0.get("frule"), t0.get("wprule")]})]
    return []


def rule_items(tier):
    out = []
    base = F.rule_sensitive_specs()[0]
    for wrule, frule, wprule in itertools.product(("MW", "SSP", "VC", "HSV"), ("MW", "SSP", "VC", "HSV"), ("FSS", "SSP")):
        sp = dict(base, tasks=[dict(t, wrule=wrule, frule=frule, wprule=wprule) for t in base["tasks"]])
        for rule in (("TSLACK",) if tier == "quick" else ("TSLACK", "SPT", "FIFO")):
            out.append((sp, {"rule": rule, "max_time": F.seq_bound(sp) + 8}))
    return out


def fac_alloc_items(tier):
    out = []
    for sp in F.fac_specs(tier, only_single_task_components=True):
        nf = [bool(t.get("nf")) for t in sp["tasks"]]
        if len(nf) < 2 or all(nf) or sp["links"]:
            continue
        for rule in ("SPT", "LPT", "TSLACK"):
            out.append((sp, {"rule": rule, "max_time": F.seq_bound(sp) + 8}))
            fnames = F.facility_names(sp)
            if fnames and rule != "TSLACK":
                # the facility task names its machine (all of them: no restriction in effect) but leaves the operator open
                sp2 = dict(sp, tasks=[dict(t, fixf=list(fnames)) if t.get("nf") else dict(t) for t in sp["tasks"]])
                out.append((sp2, {"rule": rule, "max_time": F.seq_bound(sp) + 8}))
    return out


def alloc_items(tier):
    out = []
    works = [(1, 2, 3), (2, 2, 1), (3, 1, 2), (1, 1, 1)]
    if tier == "thorough":
        works += [(1, 2, 3, 2), (3, 3, 1, 2)]
    for wv in works:
        n = len(wv)
        for links in ([], [[0, n - 1, "FS"]], [[0, 1, "SS"]]):
            fl = {"tasks": [{"name": F.tname(i), "work": float(w)} for i, w in enumerate(wv)], "links": links}
            for lay in ("POOL1", "POOL2", "SOLO"):
                sp = F.with_teams(fl, lay)
                for rule in F.ALL_TASK_RULES:
                    for order in (None, list(range(n))[::-1]):
                        sp2 = dict(sp)
                        if order:
                            sp2["order"] = order
                        out.append((sp2, {"rule": rule, "max_time": F.seq_bound(sp) + 8}))
    # a candidate in the middle of the worker order is refused (not on the fixed-ID list / solo while the task already has somebody):
    # the candidates behind him must still be offered to the higher-priority task
    for wv in ((3, 2, 1), (1, 2, 3), (2, 2, 2)):
        fl = {"tasks": [{"name": F.tname(i), "work": float(w)} for i, w in enumerate(wv)], "links": []}
        for var in ("fix02", "fix-all-but-middle-on-each", "solo-middle", "solo-first", "solo-last"):
            sp = F.with_teams(fl, "POOL3")
            sp = dict(sp, tasks=[dict(t) for t in sp["tasks"]], teams=[dict(tm, workers=[dict(w) for w in tm["workers"]]) for tm in sp["teams"]])
            if var == "fix02":
                sp["tasks"][0]["fixw"] = ["W0", "W2"]
                sp["tasks"][2]["fixw"] = ["W0", "W2"]
            elif var == "fix-all-but-middle-on-each":
                for t in sp["tasks"][:2]:
                    t["fixw"] = ["W2", "W0"]
            else:
                sp["teams"][0]["workers"][{"solo-middle": 1, "solo-first": 0, "solo-last": 2}[var]]["solo"] = True
            for rule in ("SPT", "LPT", "TSLACK", "FIFO"):
                out.append((sp, {"rule": rule, "max_time": F.seq_bound(sp) + 8}))
    for wv in ((0, 3, 2), (2, 0, 3), (3, 2, 0)):
        for links in ([], [[0, 1, "FF"]], [[1, 2, "FF"]], [[0, 2, "SF"]]):
            fl = {"tasks": [{"name": F.tname(i), "work": float(w)} for i, w in enumerate(wv)], "links": links}
            for lay in ("POOL1", "POOL2"):
                sp = F.with_teams(fl, lay)
                for rule in ("SPT", "LPT", "TSLACK"):
                    out.append((sp, {"rule": rule, "max_time": F.seq_bound(sp) + 8}))
    # a task targeted by two teams, one of them wired through the constructor keyword only
    for sp in F.mixed_wiring_specs():
        for rule in ("SPT", "LPT", "TSLACK"):
            out.append((sp, {"rule": rule, "max_time": F.seq_bound(sp) + 8}))
    # the same start-to-start models with the links declared through extend_input_task_list / as plain integers
    for wv in ((5, 2, 4), (3, 1, 2)):
        fl = {"tasks": [{"name": F.tname(i), "work": float(w)} for i, w in enumerate(wv)], "links": [[0, 1, "SS"], [0, 2, "SS"]]}
        base_ = F.with_teams(fl, "POOL2")
        # T0 has a worker of its own; T1 and T2 share the other one
        base_ = dict(base_, teams=[{"name": "TA", "targets": [0], "workers": [{"name": "a", "skills": {"T0": 1.0}, "cost": 1.0}]},
                                    {"name": "TB", "targets": [1, 2], "workers": [{"name": "w", "skills": {"T1": 1.0, "T2": 1.0}, "cost": 1.0}]}])
        for api in (None, "extend", "int", "extend-gen"):
            for rule in ("SPT", "LPT", "TSLACK"):
                out.append((dict(base_, link_api=api) if api else base_, {"rule": rule, "max_time": 20}))
                if api:
                    for j in ("1", "2"):  # only one of the two successors is declared the other way
                        out.append((dict(base_, link_api_for={j: api}), {"rule": rule, "max_time": 20}))
    # a sub-project task that is worked by people (auto_task=False) competing with a plain task for one worker
    for hw, lw in ((2.0, 5.0), (5.0, 2.0), (3.0, 3.0)):
        sp = {"tasks": [{"name": "H", "work": hw, "sub": {"auto": False}}, {"name": "L", "work": lw}], "links": [],
              "teams": [{"name": "TM0", "targets": [0, 1], "workers": [{"name": "w", "skills": {"H": 1.0, "L": 1.0}, "cost": 1.0}]}]}
        for rule in ("SPT", "LPT", "TSLACK"):
            out.append((sp, {"rule": rule, "max_time": 20}))
    # IDs and names that are unique per kind only (teams and workplaces numbered alike; two tasks of one name under different teams)
    for sp in F.id_namespace_specs() + F.named_machine_specs() + F.half_wired_workplace_specs():
        for rule in ("SPT", "LPT", "TSLACK"):
            out.append((sp, {"rule": rule, "max_time": F.seq_bound(sp) + 8}))
    return out


def run(tier, seed):
    n = 3 if tier == "quick" else 4
    items = [(m, k) for m in F.ALL_TASK_RULES for k in range(1, n + 1)]
    col = engines.fanout(items, work_tasks, seed=seed, chunks_per_proc=1)
    witems = [(m, k, wt) for m in ("MW", "SSP", "VC", "HSV") for k in range(1, (3 if tier == "quick" else 4) + 1) for wt in (False, True)]
    col.merge(engines.fanout(witems, work_workers, seed=seed, chunks_per_proc=1))
    fitems = [("facility", m, k) for m in ("MW", "SSP", "VC", "HSV") for k in range(1, 4 if tier == "quick" else 5)] + \
             [("workplace", m, k) for m in ("FSS", "SSP") for k in range(1, 4 if tier == "quick" else 5)]
    col.merge(engines.fanout(fitems, work_fac_wp, seed=seed, chunks_per_proc=1))
    ai = alloc_items(tier)
    H, D = (4, 1) if tier == "quick" else (5, 2)
    col.merge(stepcheck.explore(ai, [mon_c11], H, D, who_fn=lambda sp: stepcheck.default_who(sp, facilities=False), seed=seed))
    fi = fac_alloc_items(tier)
    col.merge(stepcheck.explore(fi, [mon_c11], 3, 1 if tier == "quick" else 2, who_fn=lambda sp: stepcheck.default_who(sp, project=False), seed=seed))
    # backward runs: same monitor on the inner run (the logs are left unreversed so that log index == inner step)
    bi = [(sp, dict(o, backward=True, rev=False)) for sp, o in ai if not sp.get("order") and not any(k == "SS" for _, _, k in sp["links"])]
    col.merge(stepcheck.explore(bi, [mon_c11], 0, 0, seed=seed))
    col.merge(stepcheck.explore([(sp, dict(o, rule=r)) for sp, o in stepcheck.edited_items() for r in ("TSLACK", "SPT", "LPT")], [mon_c11], 0, 0, seed=seed))
    col.merge(stepcheck.explore(F.scale_items(("TSLACK", "SPT", "LPT", "FIFO", "LRPT")), [mon_c11], 0, 0, seed=seed))  # medium-sized models
    col.merge(stepcheck.explore(F.extra_items(("TSLACK", "SPT", "LPT", "FIFO", "LRPT"), calendars=False), [mon_c11], 0, 0, seed=seed))  # other ways of building the object graph; continuations under a revised calendar
    ri = rule_items(tier)
    col.merge(stepcheck.explore(ri, [mon_rules_accepted, mon_c11], 3, 1, seed=seed))
    meta = {
        "level": "model_checking",
        "rule": "(rules in use) a two-workplace facility model under every combination of worker rule x facility rule x workplace rule (4x4x2) given per task, explored over absence answers: no rule value may make "
        "the allocation raise; (sorting) every list of <= %d tasks over key-field pairs in {0,1,2}^2 (incl. ties) x 9 task rules; every list of workers over (other skill, cost, target skill in {missing,0,1,2}, "
        "main_workplace_id in {None, identical object, equal but distinct string, other}) x 4 rules x target workplace given or not; facilities x 4 rule values; workplaces over capacity/placed/skill x 2 rules: "
        "result is a permutation, ordered by the documented primary key, no exception; (allocation) 3 (thorough 4) tasks with distinct and tied keys x {none, FS, SS link} x {POOL1,POOL2,SOLO} x 9 rules x both "
        "task_list orders, refused middle candidates (fixed IDs / solo), a task targeted by two differently wired teams (forward, and the inner run of backward_simulate under the same rule), explored over absence answers up to H with <= D deviations: no worker is newly given to a task while a strictly higher-priority READY/WORKING task it is eligible for could still "
        "accept it (for a facility-needing higher-priority task of a single-task component: as a pair with a FREE eligible facility of its workplace; "
        "explored on the FAC family with one facility task and one plain task under SPT/LPT/TSLACK with worker and facility absences); non-trivial = inputs with at least two different keys / distinct (low, high, worker) candidate triples" % n,
        "bounds": {"max_list_len": n, "H": H, "D": D, "alloc_models": len(ai)},
        "assumptions": ["only the primary key of each rule is claimed (documented tie-breakers and stability are not)", "LWRPT/SWRPT tie inside one workflow: no allocation claim"],
    }
    if col.checks["c11.inversion-candidates"] == 0:
        meta["vacuous"] = "no allocation with a strictly higher-priority competitor observed"
    return col, meta


def replay(v):
    if v.get("kind") == "sort":
        # re-enumerate the (small) family the input came from and return what fires
        sig = v["sig"]
        col = engines.Collector()
        d = v["detail"]
        mode = d.get("mode")
        if "sort_task_list" in sig:
            col = work_tasks([(mode, len(d.get("input") or d.get("input(key fields)")))])
        elif "sort_worker_list" in sig:
            inp = d.get("input") or d.get("input(other skill, cost, target skill, main workplace)")
            col = work_workers([(mode, len(inp), d.get("target_workplace") is not None)])
        else:
            kind = "facility" if "facility" in sig else "workplace"
            inp = [x for k, x in d.items() if k.startswith("input")][0]
            col = work_fac_wp([(kind, mode, len(inp))])
        return [x for x in col.violations if x["sig"] == sig]
    return stepcheck.replay(v, [mon_rules_accepted, mon_c11])
