"""C09 - reproducible, identity-independent, no hidden state."""
import itertools
import json
import os
import subprocess
import sys

from .. import bootstrap, engines, families as F, monitors as M, runner, spec as S
from ..info import Info


def _num(x):
    """value-for-value comparison: 3 and 3.0 are the same value"""
    if isinstance(x, bool) or x is None or isinstance(x, str):
        return x
    if isinstance(x, (int, float)):
        return float(x)
    if isinstance(x, dict):
        return {(k if isinstance(k, str) else repr(k)): _num(v) for k, v in x.items()}  # (an explicit ID may be 0: JSON object keys are sorted as text)
    if isinstance(x, (list, tuple)):
        return [_num(v) for v in x]
    return x


def jdump(m):
    """logs, times, costs, status and the live task/resource state; the live PERT scratch values
    (est/eft/lst/lft/critical path length) are not results in the sense of the statement"""
    d = S.dump(m)
    d.pop("cpl", None)
    for e in d["tasks"].values():
        for k in ("est", "eft", "lst", "lft"):
            e.pop(k, None)
    return json.dumps(_num(d), sort_keys=True, default=str)


def first_diff(a, b):
    da, db = json.loads(a), json.loads(b)

    def walk(x, y, path):
        if type(x) != type(y):
            return path, x, y
        if isinstance(x, dict):
            for k in sorted(set(x) | set(y)):
                if k not in x or k not in y:
                    return path + [k], x.get(k), y.get(k)
                r = walk(x[k], y[k], path + [k])
                if r:
                    return r
            return None
        if isinstance(x, list):
            if len(x) != len(y):
                return path + ["len"], len(x), len(y)
            for i, (p, q) in enumerate(zip(x, y)):
                r = walk(p, q, path + [i])
                if r:
                    return r
            return None
        return None if x == y else (path, x, y)

    return walk(da, db, [])


def classify(spec, diff):
    kinds = sorted(set(k for _, _, k in spec.get("links", [])))
    return "links=" + "+".join(kinds) if kinds else "links=none"


def run_perm(spec, opts, perm, cperm=None, wperm=None):
    sp = dict(spec, hash=list(perm))
    if cperm is not None:
        sp["chash"] = list(cperm)
    if wperm is not None:
        sp["whash"] = list(wperm)
    ex = runner.run(sp, dict(opts, phases=()))
    return ex


def work_perms(chunk):
    col = engines.Collector()
    for item in chunk:
        spec, opts = item[0], item[1]
        part = item[2] if len(item) > 2 else None  # (k, m): this work item takes every m-th permutation starting at k
        n = len(spec["tasks"])
        nc = len(spec.get("components", []))
        ident = tuple(range(n))
        base = run_perm(spec, opts, ident, tuple(range(nc)) if nc else None)
        col.evaluations += 1
        ref = jdump(base.m) if base.error is None else "ERR:" + base.error
        key = hash(repr(spec) + repr(opts))
        col.states.add(hash((key, ref)))
        outcomes = {ref}
        cperms = list(itertools.permutations(range(nc))) if nc else [None]
        nw = len(F.worker_names(spec))
        # hash ranks of workers: every order for <= 3 workers (sets of workers do not occur in the library today,
        # a change that introduces one must not make results depend on them either)
        wperms = list(itertools.permutations(range(nw))) if 2 <= nw <= 3 else [None]
        combos = [(p_, c_, None) for p_ in itertools.permutations(range(n)) for c_ in cperms] + [(ident, cperms[0], w_) for w_ in wperms[1:]]
        if part is not None:
            combos = combos[part[0] :: part[1]]
        for perm, cperm, wperm in combos:
            if True:
                if perm == ident and (cperm is None or cperm == tuple(range(nc))) and wperm is None:
                    continue
                ex = run_perm(spec, opts, perm, cperm, wperm)
                col.evaluations += 1
                col.checks["c09.perm"] += 1
                got = jdump(ex.m) if ex.error is None else "ERR:" + ex.error
                col.transitions.add(hash((key, perm, cperm, wperm)))
                outcomes.add(got)
                if got != ref:
                    d = first_diff(ref, got) if not (ref.startswith("ERR") or got.startswith("ERR")) else ("error", ref[:80], got[:80])
                    col.violation({"property": "C09", "sig": "C09:result-depends-on-set-iteration-order:" + classify(spec, d), "kind": "perm",
                                   "spec": spec, "opts": opts, "perm": list(perm), "cperm": list(cperm) if cperm else None, "wperm": list(wperm) if wperm else None,
                                   "detail": {"first_difference(path, identity-order, permuted)": d}})
        col.outcomes[len(outcomes)] += 1
        if len(spec.get("links", [])) > 0:
            col.nontrivial.add(key)
        if len(col.samples) < 2 and spec.get("links"):
            col.samples.append({"spec": spec, "opts": opts, "permutations_run": "all %d! task hash-rank orders" % n})
    return col


def _has_calendars(spec):
    res = [w for tm in spec.get("teams", []) for w in tm.get("workers", [])] + [f for wp in spec.get("workplaces", []) for f in wp.get("facilities", [])]
    return any(r.get("absence") or r.get("absence_after") or r.get("absence_late") for r in res)


def _strip_prefix(d, L):
    """the dump of a project whose logs were kept over a restart, without the first L entries (and the clock counted from there)"""
    def cut(x):
        if isinstance(x, list):
            return x[L:]
        if isinstance(x, dict):
            return {k: (cut(v) if k.endswith("_log") or k in ("cost", "org_cost") else v) for k, v in x.items()}
        return x

    out = dict(d)
    out["time"] = d["time"] - L
    out["cost"] = d["cost"][L:]
    out["org_cost"] = d["org_cost"][L:]
    for grp in ("tasks", "workers", "facilities", "components", "teams", "workplaces"):
        out[grp] = {oid: cut(e) for oid, e in d[grp].items()}
    return out


def work_hist(chunk):
    """simulate; simulate on one object.  Contamination histories: A.simulate(); A edits; B.simulate() with defaults."""
    col = engines.Collector()
    for spec, opts in chunk:
        key = hash(repr(spec) + repr(opts))
        kw = runner.sim_kwargs(opts)
        # (1) repeated simulate on one object
        m = runner.prepare(spec, opts)
        m.project.simulate(**runner.sim_kwargs(opts))
        d1 = jdump(m)
        m.project.simulate(**runner.sim_kwargs(opts))
        d2 = jdump(m)
        col.evaluations += 2
        col.checks["c09.resimulate"] += 1
        col.transitions.add(hash((key, "sim;sim")))
        if d1 != d2:
            col.violation({"property": "C09", "sig": "C09:second-simulate-on-same-object-differs", "kind": "hist", "spec": spec, "opts": opts, "hist": "sim;sim",
                           "detail": {"first_difference": first_diff(d1, d2)}})
        # (1a) earlier activity with *other* arguments on the same object, then the reference call again
        for hist in (("sim-abs",), ("sim", "insert"), ("sim-abs", "remove"), ("sim-auto",), ("sim", "queries"), ("queries",), ("sim-spt",), ("sim-lpt", "sim-fifo")):
            mo = runner.prepare(spec, opts)
            try:
                for op in hist:
                    if op == "sim":
                        mo.project.simulate(**runner.sim_kwargs(opts))
                    elif op == "sim-abs":
                        mo.project.simulate(**runner.sim_kwargs(dict(opts, absence=[1, 2])))
                    elif op == "sim-auto":
                        mo.project.simulate(**runner.sim_kwargs(dict(opts, absence=[0], auto_abs=True)))
                    elif op in ("sim-spt", "sim-lpt", "sim-fifo"):
                        mo.project.simulate(**runner.sim_kwargs(dict(opts, rule={"sim-spt": "SPT", "sim-lpt": "LPT", "sim-fifo": "FIFO"}[op])))  # an earlier run under another priority rule
                    elif op == "insert":
                        mo.project.insert_absence_time_list([1])
                    elif op == "remove":
                        mo.project.remove_absence_time_list()
                    elif op == "queries":
                        runner.read_only_calls(mo.project)  # get_*_list, extract_*, chart and network data, print_* with default arguments
            except Exception as e:
                # the earlier activity itself raised (e.g. the known nested-placement crash of section 8.2 under another rule): no statement about the later run
                col.aborted["%s during the earlier activity %s" % (type(e).__name__, "+".join(hist))] += 1
                continue
            try:
                mo.project.simulate(**runner.sim_kwargs(opts))
                d4 = jdump(mo)
            except Exception as e:
                d4 = "ERR:" + repr(e)
            col.evaluations += len(hist) + 1
            col.checks["c09.same-object-history"] += 1
            col.transitions.add(hash((key, hist, "sim")))
            if d4 != d1:
                col.violation({"property": "C09", "sig": "C09:simulate-after-earlier-activity-on-same-object-differs:" + "+".join(hist), "kind": "hist", "spec": spec, "opts": opts, "hist": ";".join(hist) + ";sim",
                               "detail": {"first_difference": first_diff(d1, d4) if not d4.startswith("ERR") else d4}})
        # (1b) backward run(s) on the same object, then forward: must equal the forward run of a fresh object
        for due, rev in itertools.product((False, True), repeat=2):
            mo = runner.prepare(spec, opts)
            try:
                mo.project.backward_simulate(**dict(runner.sim_kwargs(opts), considering_due_time_of_tail_tasks=due, reverse_log_information=rev))
                mo.project.simulate(**runner.sim_kwargs(opts))
                d3 = jdump(mo)
            except Exception as e:
                d3 = "ERR:" + repr(e)
            col.evaluations += 2
            col.checks["c09.backward-then-forward"] += 1
            col.transitions.add(hash((key, "back;sim", due, rev)))
            if d3 != d1:
                col.violation({"property": "C09", "sig": "C09:forward-run-after-backward-run-on-same-object-differs:due=%s" % due, "kind": "hist", "spec": spec, "opts": opts, "hist": "back(due=%s,rev=%s);sim" % (due, rev),
                               "detail": {"first_difference": first_diff(d1, d3) if not d3.startswith("ERR") else d3}})
        # (1b') a backward run that ends in an exception (the "Time Over" warning of a run cut after two steps, raised as an error), then forward
        import warnings as _w

        mo = runner.prepare(spec, opts)
        raised = False
        try:
            with _w.catch_warnings():
                _w.simplefilter("error")
                mo.project.backward_simulate(**dict(runner.sim_kwargs(opts), max_time=2))
        except Warning:
            raised = True
        except Exception:
            raised = None  # (the backward run itself failed for another reason: no statement)
        if raised:
            try:
                mo.project.simulate(**runner.sim_kwargs(opts))
                d3 = jdump(mo)
            except Exception as e:
                d3 = "ERR:" + repr(e)
            col.evaluations += 2
            col.checks["c09.aborted-backward-then-forward"] += 1
            col.transitions.add(hash((key, "back!;sim")))
            if d3 != d1:
                col.violation({"property": "C09", "sig": "C09:forward-run-after-an-aborted-backward-run-on-same-object-differs", "kind": "hist", "spec": spec, "opts": opts, "hist": "back(max_time=2, warnings as errors);sim",
                               "detail": {"first_difference": first_diff(d1, d3) if not d3.startswith("ERR") else d3}})
        # (1c) a run stopped at step k, then started again: with everything reset it must equal the reference; with the states
        #      reset and the logs kept, what is appended to the logs must be the reference run (absence-free models: nothing depends on absolute time)
        ref_d = json.loads(d1)
        for k in (1, 2, 3):
            for keep_logs in (False, True):
                if keep_logs and (opts.get("absence") or _has_calendars(spec) or opts.get("rule") == "FIFO"):
                    continue  # (with absence lists, which name absolute times, the appended life cycle is not a shifted copy; neither under FIFO, whose key is read from the kept logs)
                mo = runner.prepare(spec, opts)
                try:
                    mo.project.simulate(**dict(runner.sim_kwargs(opts), max_time=k))
                    L = len(mo.project.cost_list)
                    if keep_logs:
                        mo.project.simulate(**dict(runner.sim_kwargs(opts), initialize_state_info=True, initialize_log_info=False, max_time=kw["max_time"] + L))
                        got = _strip_prefix(json.loads(jdump(mo)), L)
                    else:
                        mo.project.simulate(**runner.sim_kwargs(opts))
                        got = json.loads(jdump(mo))
                except Exception as e:
                    got = "ERR:" + repr(e)
                col.evaluations += 2
                col.checks["c09.stop-then-restart"] += 1
                col.transitions.add(hash((key, "stop;restart", k, keep_logs)))
                if got != ref_d:
                    col.violation({"property": "C09", "sig": "C09:run-started-again-after-a-stop-differs:%s" % ("logs-kept" if keep_logs else "everything-reset"), "kind": "hist", "spec": spec, "opts": opts,
                                   "hist": "sim(max_time=%d);sim(state reset, logs %s)" % (k, "kept" if keep_logs else "reset"),
                                   "detail": {"first_difference": first_diff(json.dumps(ref_d, sort_keys=True), json.dumps(got, sort_keys=True)) if not isinstance(got, str) else got}})
        # (1d) a run stopped at step k (optionally a holiday is entered at the stop): the project rebuilt at new addresses from what it writes to JSON
        #      must go on exactly like the original objects (nothing that steers the continuation may live outside the saved state)
        for k in (1, 2, 3, 5, 8):
            for ins in ((None, [0], [1]) if k <= 3 else (None,)):
                import os
                import tempfile
                from pDESy.model.base_project import BaseProject

                mo = runner.prepare(spec, opts)
                try:
                    mo.project.simulate(**dict(runner.sim_kwargs(opts), max_time=k))
                    if ins is not None:
                        mo.project.insert_absence_time_list(list(ins))
                    fd, path = tempfile.mkstemp(prefix="verif-c09-", suffix=".json")
                    os.close(fd)
                    try:
                        mo.project.write_simple_json(path)
                        p2 = BaseProject()
                        p2.read_simple_json(path)
                    finally:
                        os.unlink(path)
                    cont = dict(runner.sim_kwargs(opts), initialize_state_info=False, initialize_log_info=False, max_time=kw["max_time"] + 4)
                    mo.project.simulate(**cont)
                    p2.simulate(**dict(cont, absence_time_list=list(cont["absence_time_list"])))
                    da, db = jdump(mo), jdump(S.adopt(p2))
                    diff = first_diff(da, db) if da != db else None
                except Exception as e:
                    diff = "ERR:" + repr(e)
                col.evaluations += 2
                col.checks["c09.continued-original-vs-rebuilt-copy"] += 1
                col.transitions.add(hash((key, "stop;rebuild;continue", k, tuple(ins) if ins else None)))
                if diff:
                    col.violation({"property": "C09", "sig": "C09:continuation-of-a-rebuilt-copy-differs-from-the-original-objects" + (":holiday-entered-at-the-stop" if ins is not None else ""), "kind": "hist", "spec": spec, "opts": opts,
                                   "hist": "sim(max_time=%d)%s;copy via JSON;continue both" % (k, ";insert%s" % ins if ins is not None else ""), "detail": {"first_difference(original, copy)": diff}})
        # (1e) the same declared model built another way: twins made with copy.copy (run-time containers still shared with the template) vs. every object from its constructor
        def _strip(x):
            if isinstance(x, dict):
                return {k_: _strip(v_) for k_, v_ in x.items() if k_ != "copy_of"}
            if isinstance(x, list):
                return [_strip(v_) for v_ in x]
            return x

        if "copy_of" in repr(spec):
            try:
                mc_ = runner.prepare(_strip(spec), opts)
                mc_.project.simulate(**runner.sim_kwargs(opts))
                dc = jdump(mc_)
            except Exception as e:
                dc = "ERR:" + repr(e)
            col.evaluations += 1
            col.checks["c09.copy-built-vs-constructor-built"] += 1
            col.transitions.add(hash((key, "copy-vs-ctor")))
            if dc != d1:
                col.violation({"property": "C09", "sig": "C09:model-built-with-copy-twins-gives-another-result-than-the-constructor-built-model", "kind": "hist", "spec": spec, "opts": opts, "hist": "copy twins vs constructors",
                               "detail": {"first_difference(copy-built, constructor-built)": first_diff(d1, dc) if not dc.startswith("ERR") else dc}})
        # (2) rebuilt model with the library's own classes (id()-hashed, new addresses), twice
        junk = [object() for _ in range(17)]
        e1 = runner.run(spec, dict(opts, plain=True, phases=()))
        junk2 = [dict() for _ in range(29)]
        e2 = runner.run(spec, dict(opts, plain=True, phases=()))
        del junk, junk2
        col.evaluations += 2
        col.checks["c09.rebuild"] += 1
        col.transitions.add(hash((key, "rebuild")))
        a, b = jdump(e1.m), jdump(e2.m)
        if a != b or a != d1:
            col.violation({"property": "C09", "sig": "C09:rebuilt-model-gives-different-result:" + classify(spec, None), "kind": "hist", "spec": spec, "opts": opts, "hist": "rebuild", "address_dependent": True,
                           "detail": {"first_difference": first_diff(a, b) or first_diff(a, d1)}})
        # (3) hidden state: default-argument simulate on fresh B before and after activity on A
        bootstrap.reset_mutable_defaults()
        mb0 = runner.prepare(spec, opts)
        mb0.project.simulate(max_time=kw["max_time"], task_priority_rule=kw["task_priority_rule"])
        ref = jdump(mb0)
        for hist in (("sim",), ("sim", "insert"), ("sim", "insert", "remove"), ("backward",), ("sim", "insert", "sim")):
            bootstrap.reset_mutable_defaults()
            before = bootstrap.mutable_defaults()
            ma = runner.prepare(spec, opts)
            try:
                for op in hist:
                    if op == "sim":
                        ma.project.simulate(max_time=kw["max_time"], task_priority_rule=kw["task_priority_rule"])
                    elif op == "insert":
                        ma.project.insert_absence_time_list([1])
                    elif op == "remove":
                        ma.project.remove_absence_time_list()
                    elif op == "backward":
                        ma.project.backward_simulate(max_time=kw["max_time"], task_priority_rule=kw["task_priority_rule"])
            except Exception as e:
                col.aborted["%s during contamination history" % type(e).__name__] += 1
            after = bootstrap.mutable_defaults()
            mb = runner.prepare(spec, opts)
            mb.project.simulate(max_time=kw["max_time"], task_priority_rule=kw["task_priority_rule"])
            got = jdump(mb)
            col.evaluations += 2
            col.checks["c09.contamination"] += 1
            col.transitions.add(hash((key, hist)))
            if after != before:
                col.violation({"property": "C09", "sig": "C09:hidden-state:mutable-default-argument-of-simulate-changed", "kind": "hist", "spec": spec, "opts": opts, "hist": list(hist),
                               "detail": {"defaults_before": before, "defaults_after": after}})
            if got != ref:
                col.violation({"property": "C09", "sig": "C09:hidden-state:fresh-project-result-changed-by-earlier-activity", "kind": "hist", "spec": spec, "opts": opts, "hist": list(hist),
                               "detail": {"first_difference": first_diff(ref, got)}})
        bootstrap.reset_mutable_defaults()
        col.states.add(hash((key, d1)))
        col.nontrivial.add(key)
    return col


# ---------------------------------------------------------------------------------------------
# E4(b): per-iteration-event order deviations.  A `set` subclass is injected into the namespaces of
# pDESy.model.base_workflow / base_product, so that every set the library builds there iterates in
# hash-rank order by default and in an alternative permutation at exactly one chosen iteration
# event of the run (deviation bound 1: every event x every alternative order of that set).
# ---------------------------------------------------------------------------------------------
class _Ctrl(object):
    def __init__(self):
        self.reset(None, None)

    def reset(self, at, perm):
        self.n = 0
        self.at = at
        self.perm = perm
        self.sizes = []


CTRL = _Ctrl()


class CSet(set):
    def __iter__(self):
        items = sorted(set.__iter__(self), key=lambda o: hash(o))
        if len(items) >= 2:
            k = CTRL.n
            CTRL.n += 1
            CTRL.sizes.append(len(items))
            if CTRL.at == k and CTRL.perm is not None and len(CTRL.perm) == len(items):
                items = [items[i] for i in CTRL.perm]
        return iter(items)


def _inject(on):
    import pDESy.model.base_workflow as bw
    import pDESy.model.base_product as bp

    for mod in (bw, bp):
        if on:
            mod.set = CSet
        elif "set" in mod.__dict__:
            del mod.__dict__["set"]


def work_events(chunk):
    col = engines.Collector()
    _inject(True)
    try:
        for spec, opts in chunk:
            key = hash(repr(spec) + repr(opts))
            CTRL.reset(None, None)
            base = runner.run(spec, dict(opts, phases=()))
            sizes = list(CTRL.sizes)
            ref = jdump(base.m) if base.error is None else "ERR:" + base.error
            col.evaluations += 1
            col.states.add(hash((key, ref)))
            for k, sz in enumerate(sizes):
                for perm in itertools.permutations(range(sz)):
                    if perm == tuple(range(sz)):
                        continue
                    CTRL.reset(k, perm)
                    ex = runner.run(spec, dict(opts, phases=()))
                    col.evaluations += 1
                    col.checks["c09.event-deviation"] += 1
                    col.transitions.add(hash((key, k, perm)))
                    got = jdump(ex.m) if ex.error is None else "ERR:" + ex.error
                    if got != ref:
                        d = first_diff(ref, got) if not (ref.startswith("ERR") or got.startswith("ERR")) else ("error", ref[:80], got[:80])
                        col.violation({"property": "C09", "sig": "C09:result-depends-on-order-of-one-set-iteration:" + classify(spec, d), "kind": "event", "spec": spec, "opts": opts,
                                       "event": k, "perm": list(perm), "detail": {"iteration_event": k, "of": len(sizes), "first_difference(path, default-order, deviated)": d}})
            col.extra["iteration_events_total"] += len(sizes)
            if sizes:
                col.nontrivial.add(key)
    finally:
        CTRL.reset(None, None)
        _inject(False)
    return col


def event_items(tier):
    out = []
    if tier == "quick":
        flows = [fl for fl in F.flows(3, ("FF", "SF", "SS"), (1,))][::3] + list(F.flows(2, F.KINDS4, (1, 2)))
    else:
        flows = list(F.flows(3, F.KINDS4, (1, 2)))[::2] + list(F.flows(2, F.KINDS4, (1, 2)))
    for fl in flows:
        n = len(fl["tasks"])
        for lay in (("DED",) if tier == "quick" else ("DED", "POOL2")):
            sp = F.with_teams(fl, lay)
            out.append((sp, {"rule": "TSLACK", "max_time": F.seq_bound(sp) + 4}))
    return out


from ..edits import edit_cases, apply_edit  # noqa: E402,F401


# edits a user may make while a run is stopped (nothing that is in use is taken away)
AT_A_STOP = ("team-add-target", "worker-skill", "move-facility-in", "move-facility-out", "add-component", "set-rates", "resize-placed-component", "add-ff-link", "add-sf-link",
             "worker-absence-append-3", "byhand-check-then-absent-1", "byhand-check-then-absent-2")


def work_edits(chunk):
    col = engines.Collector()
    for a, b, name in chunk:
        opts = {"rule": "TSLACK", "max_time": 30}
        kw = runner.sim_kwargs(opts)
        fresh = runner.prepare(b, opts)
        fresh.project.simulate(**runner.sim_kwargs(opts))
        ref = jdump(fresh)
        for nruns in (1, 2):
            m = runner.prepare(a, opts)
            for _ in range(nruns):
                m.project.simulate(**runner.sim_kwargs(opts))
            apply_edit(m, name)
            m.project.simulate(**runner.sim_kwargs(opts))
            got = jdump(m)
            col.evaluations += nruns + 2
            col.checks["c09.edit-between-runs"] += 1
            key = hash((repr(a), name, nruns))
            col.transitions.add(key)
            col.states.add(hash((key, got)))
            col.nontrivial.add(key)
            if got != ref:
                col.violation({"property": "C09", "sig": "C09:run-after-model-edit-differs-from-fresh-model:" + name, "kind": "edit", "spec": a, "spec_after": b, "edit": name, "nruns": nruns,
                               "detail": {"first_difference(path, fresh edited model, edited after %d run(s))" % nruns: first_diff(ref, got)}})
        if name not in AT_A_STOP:
            continue
        # the same edit made while the run is stopped at step k: the original objects and a copy rebuilt from a file written after the edit continue alike
        for k in (1, 2, 3):
            import os
            import tempfile
            from pDESy.model.base_project import BaseProject

            try:
                m = runner.prepare(a, opts)
                m.project.simulate(**dict(runner.sim_kwargs(opts), max_time=k))
                apply_edit(m, name)
                fd, path = tempfile.mkstemp(prefix="verif-c09e-", suffix=".json")
                os.close(fd)
                try:
                    m.project.write_simple_json(path)
                    p2 = BaseProject()
                    p2.read_simple_json(path)
                finally:
                    os.unlink(path)
                cont = dict(runner.sim_kwargs(opts), initialize_state_info=False, initialize_log_info=False)
                m.project.simulate(**cont)
                p2.simulate(**dict(cont, absence_time_list=list(cont["absence_time_list"])))
                da, db = jdump(m), jdump(S.adopt(p2))
                diff = first_diff(da, db) if da != db else None
            except Exception as e:
                diff = "ERR:" + repr(e)
            col.evaluations += 2
            col.checks["c09.edited-at-a-stop:original-vs-rebuilt-copy"] += 1
            key = hash((repr(a), name, "stop", k))
            col.transitions.add(key)
            col.nontrivial.add(key)
            if diff:
                col.violation({"property": "C09", "sig": "C09:continuation-of-a-rebuilt-copy-differs-from-the-original-objects:edited-at-the-stop:" + name, "kind": "edit", "spec": a, "spec_after": b, "edit": name,
                               "nruns": 0, "detail": {"stop": k, "first_difference(original, copy)": diff}})
    return col


def perm_items(tier):
    out = []
    if tier == "quick":
        flows = list(F.flows(3, F.KINDS4, (1, 2)))
        rules = ("TSLACK",)
        lays = ("DED", "POOL2")
    else:
        flows = list(F.flows(3, F.KINDS4, (1, 2)))
        rules = ("TSLACK", "EST", "SPT", "FIFO", "LRPT")
        lays = ("DED", "POOL2", "POOL1")
    for fl in flows:
        for lay in lays:
            sp = F.with_teams(fl, lay)
            for rule in rules:
                out.append((sp, {"rule": rule, "max_time": F.seq_bound(sp) + 6}))
    # three interchangeable workers: after the first allocation of a step two tied candidates remain
    for fl in list(F.flows(3, ("FS", "SS"), (1, 2)))[:: (3 if tier == "quick" else 1)]:
        for lay in ("POOL3", "SOLO"):
            sp = F.with_teams(fl, lay)
            out.append((sp, {"rule": "TSLACK", "max_time": F.seq_bound(sp) + 6}))
    if tier == "thorough":
        for fl in F.flows(4, ("FS", "FF", "SS"), (1,)):
            sp = F.with_teams(fl, "DED")
            out.append((sp, {"rule": "TSLACK", "max_time": F.seq_bound(sp) + 6}))
    # five tasks: a tail with two inputs of different kinds in one layer beside an independent chain, fewer workers than READY tasks (all 5! orders)
    for sp in F.five_task_join_specs()[:: (2 if tier == "quick" else 1)]:
        out.append((sp, {"rule": "TSLACK", "max_time": F.seq_bound(sp) + 6}))
    # eight tasks, FS only: a node with two routes of different length to the tail, two more levels upstream, a competitor chain and a loose task (all 8! orders)
    # (quick: without the loose task, 7! orders; thorough: 8! orders, two work vectors)
    for wv in (((2, 2, 2, 3, 2, 2, 7),) if tier == "quick" else ((2, 2, 2, 3, 2, 2, 7, 1), (1, 2, 1, 3, 1, 4, 3, 2))):
        fl = {"tasks": [{"name": F.tname(i), "work": float(w)} for i, w in enumerate(wv)], "links": [[0, 1, "FS"], [1, 2, "FS"], [2, 3, "FS"], [3, 4, "FS"], [2, 4, "FS"], [5, 6, "FS"]]}
        out += [(F.with_teams(fl, "POOL1"), {"rule": "TSLACK", "max_time": 40}, (k, 32)) for k in range(32)]
    # cost rates that do not add up associatively (0.1 + 0.2 + 0.3), three workers of one team busy in the same step (all orders of tasks and of workers)
    fl = {"tasks": [{"name": F.tname(i), "work": 2.0} for i in range(3)], "links": []}
    sp = F.with_teams(fl, "POOL3")
    sp = dict(sp, teams=[dict(tm, workers=[dict(w, cost=c) for w, c in zip(tm["workers"], (0.1, 0.2, 0.3))]) for tm in sp["teams"]])
    out.append((sp, {"rule": "TSLACK", "max_time": 12}))
    # components (sets of components are iterated in check_removing_placed_workplace)
    for sp in list(F.fac_specs("quick"))[:: (4 if tier == "quick" else 1)]:
        if len(sp.get("components", [])) <= 3:
            out.append((sp, {"rule": "TSLACK", "max_time": F.seq_bound(sp) + 6}))
    return out


def hist_items(tier):
    out = []
    flows = list(F.flows(3, F.KINDS4, (2,)))
    if tier == "quick":
        flows = flows[::3]
    for fl in flows:
        sp = F.with_teams(fl, "POOL2")
        sp = dict(sp, tasks=[dict(t, due=(4, 9, 6)[i]) for i, t in enumerate(sp["tasks"])])
        out.append((sp, {"rule": "TSLACK", "max_time": F.seq_bound(sp) + 6}))
        out.append((sp, {"rule": "TSLACK", "absence": [1], "max_time": F.seq_bound(sp) + 7}))
        sp1 = F.with_teams(fl, "POOL1")
        sp1 = dict(sp1, tasks=[dict(t, due=(10, 20, 5)[i]) for i, t in enumerate(sp1["tasks"])])
        out.append((sp1, {"rule": "TSLACK", "max_time": F.seq_bound(sp1) + 6}))
    for sp in list(F.fac_specs("quick"))[::9]:
        out.append((sp, {"rule": "TSLACK", "max_time": F.seq_bound(sp) + 6}))
    for sp in F.scale_specs():
        out.append((sp, {"rule": "TSLACK", "max_time": F.seq_bound(sp) + 10}))
    # FIFO reads the logs: waiting and running tasks competing for a worker who becomes free later; tasks holding two worker/machine pairs
    for sp in F.rule_sensitive_specs()[:6] + [F.with_teams({"tasks": [{"name": "T0", "work": 4.0}, {"name": "T1", "work": 2.0}, {"name": "T2", "work": 3.0}], "links": []}, "POOL2")]:
        out.append((sp, {"rule": "FIFO", "max_time": F.seq_bound(sp) + 10}))
    for sp in F.two_pair_specs() + [F.decimal_floor_spec(), F.tied_lines_spec()]:
        out.append((sp, {"rule": "TSLACK", "max_time": F.seq_bound(sp) + 8}))
    out.append((F.tied_lines_spec(), {"rule": "LRPT", "max_time": 30}))
    for sp in F.usage_specs():
        if "parent-child:one-cap1" not in sp["label"] and ("bottom-up:fac" not in sp["label"] or sp["label"].endswith("both")):
            out.append((sp, {"rule": "TSLACK", "max_time": F.seq_bound(sp) + 10}))
    # design -> build next to a long independent task; one worker cannot design: a running task that can take a second worker competes with a waiting one
    for wv in ((3.0, 3.0, 6.0), (2.0, 3.0, 5.0), (3.0, 2.0, 4.0)):
        sp = {"tasks": [{"name": "design", "work": wv[0]}, {"name": "build", "work": wv[1]}, {"name": "docs", "work": wv[2]}], "links": [[0, 1, "FS"]],
              "teams": [{"name": "TM0", "targets": [0, 1, 2], "workers": [{"name": "ann", "skills": {"build": 1.0, "docs": 1.0}, "cost": 10.0}, {"name": "bob", "skills": {"design": 1.0, "build": 1.0, "docs": 1.0}, "cost": 7.0}]}]}
        for rule in ("FIFO", "TSLACK"):
            out.append((sp, {"rule": rule, "max_time": 24}))
    from . import c15 as _c15

    for sp, o in _c15.items("quick"):
        if sp.get("workplaces") and any(wp.get("inputs") for wp in sp["workplaces"]) and not o.get("backward") and not o.get("unit_time") and not o.get("absence"):
            out.append((sp, o))  # conveyor layouts (what a backward run does to the workplace links must be undone)
    from . import c13 as _c13

    for sp in [s_ for s_ in _c13.competing_specs("quick") if len(s_.get("workplaces", [])) == 4 and s_["workplaces"][2].get("name") == "WELD1"][::3]:
        out.append((sp, {"rule": "TSLACK", "max_time": F.seq_bound(sp) + 8}))
    return out


_SUB_ORDER = r"""
import sys, json, hashlib
sys.path.insert(0, %r)
from mc.props import c09
from mc import runner
items = c09.perm_items('quick')[::53]
order = list(range(len(items)))
if sys.argv[1] == 'rev':
    order.reverse()
out = {}
for i in order:
    spec, opts = items[i][0], items[i][1]
    ex = runner.run(spec, dict(opts, phases=()))
    out[i] = hashlib.sha256((c09.jdump(ex.m) if ex.error is None else 'ERR:' + ex.error).encode()).hexdigest()
print(json.dumps(out))
"""


def history_dependence(col):
    """The same models executed in one fresh interpreter in list order and in another in reversed order: the result of a
    model must not depend on what was simulated before it in the same process (module-level caches, mutable defaults)."""
    here = os.path.dirname(os.path.dirname(os.path.dirname(os.path.abspath(__file__))))
    res = []
    for mode in ("fwd", "rev"):
        r = subprocess.run([sys.executable, "-c", _SUB_ORDER % here, mode], env=dict(os.environ, PYTHONHASHSEED="0"), capture_output=True, text=True, cwd=here)
        if r.returncode != 0:
            raise RuntimeError("subprocess failed: " + r.stderr[-2000:])
        res.append(json.loads(r.stdout.strip().splitlines()[-1]))
    col.checks["c09.history-dependence"] += 1
    col.evaluations += 2 * len(res[0])
    col.extra["history_dependence_models"] += len(res[0])
    bad = sorted(k for k in res[0] if res[0][k] != res[1].get(k))
    for k in res[0]:
        col.transitions.add(hash(("order", k)))
    if bad:
        col.violation({"property": "C09", "sig": "C09:result-depends-on-what-was-simulated-earlier-in-the-process", "kind": "order",
                       "detail": {"models_differing": len(bad), "of": len(res[0]), "first_model_index(in perm_items('quick')[::53])": bad[0]}})


def default_id_rebuild(col):
    """Models whose workers and facilities get the constructor's default IDs (uuid4): two builds must give the same result
    once IDs are mapped back to names."""
    import re

    tied = []
    for frule in ("SSP", "VC", "HSV"):
        # two facilities tied on every sort key (same skills; same cost for VC) but distinguishable in the result, one worker
        cost1 = 1.0 if frule == "VC" else 3.0
        tied.append({"tasks": [{"name": "T0", "work": 4.0, "nf": True, "frule": frule}], "links": [], "components": [{"name": "C0", "tasks": [0]}],
                     "workplaces": [{"name": "WP0", "cap": 1.0, "targets": [0], "facilities": [{"name": "F0", "skills": {"T0": 1.0}, "cost": 1.0}, {"name": "F1", "skills": {"T0": 1.0}, "cost": cost1}]}],
                     "teams": [{"name": "TM0", "targets": [0], "workers": [{"name": "W0", "skills": {"T0": 1.0}, "fskills": {"F0": 1.0, "F1": 1.0}, "cost": 1.0}]}], "label": "tied:" + frule})
    for sp0 in [sp for sp in F.rule_sensitive_specs() if sp["label"].startswith("pairs")] + tied:
        for one_worker in ((False, True) if sp0["label"].startswith("pairs") else (False,)):
            dumps = []
            for rep in range(6):
                m = S.build(sp0, plain=True)
                if one_worker:
                    m.teams[0].worker_list[:] = [w for w in m.teams[0].worker_list if w.name != "W1"]
                import uuid

                ren = {}
                for o in [w for tm in m.teams for w in tm.worker_list] + m.facilities:
                    new = str(uuid.uuid4())
                    ren[new] = o.name
                    o.ID = new
                for wp in m.workplaces:
                    for f in wp.facility_list:
                        f.workplace_id = wp.ID
                m.project.simulate(max_time=40, absence_time_list=[])
                txt = jdump(S.adopt(m.project))
                for k, v in ren.items():
                    txt = txt.replace(k, v)
                dumps.append(json.dumps(json.loads(txt), sort_keys=True))  # keys were sorted by the generated IDs: sort again by name
            col.evaluations += 6
            col.checks["c09.default-ids"] += 1
            col.transitions.add(hash(("defaultid", sp0["label"], one_worker)))
            if len(set(dumps)) != 1:
                col.violation({"property": "C09", "sig": "C09:result-depends-on-generated-default-IDs", "kind": "defaultid", "address_dependent": True, "spec": sp0,
                               "detail": {"distinct_results_in_6_builds": len(set(dumps)), "first_difference": first_diff(dumps[0], [d for d in dumps if d != dumps[0]][0])}})


_SUB = r"""
import sys, json, hashlib
sys.path.insert(0, %r)
from mc.props import c09
from mc import runner
h = hashlib.sha256()
n = 0
for spec, opts in [(it[0], it[1]) for it in c09.perm_items('quick')[::7]]:
    ex = runner.run(spec, dict(opts, plain=True, phases=()))
    h.update(c09.jdump(ex.m).encode()); n += 1
print(n, h.hexdigest())
"""


def falsy_id_rebuild(col):
    """models built directly with the library's constructors, every object given an explicit ID - among them 0 and "" - and built twice:
    the raw logs (IDs included) of the two builds must be equal"""
    from pDESy.model.base_component import BaseComponent
    from pDESy.model.base_facility import BaseFacility
    from pDESy.model.base_organization import BaseOrganization
    from pDESy.model.base_product import BaseProduct
    from pDESy.model.base_project import BaseProject
    from pDESy.model.base_task import BaseTask
    from pDESy.model.base_team import BaseTeam
    from pDESy.model.base_worker import BaseWorker
    from pDESy.model.base_workflow import BaseWorkflow
    from pDESy.model.base_workplace import BaseWorkplace

    def build(ids, stop=None):
        a = BaseTask("a", ID=ids[0], default_work_amount=2.0, need_facility=True)
        b = BaseTask("b", ID=ids[1], default_work_amount=2.0)
        b.append_input_task(a)
        c = BaseComponent("c", ID=ids[2])
        c.append_targeted_task(a)
        d = BaseComponent("d", ID="dd")  # (a second part, for the task that is not the first of the workflow)
        d.append_targeted_task(b)
        f = BaseFacility("f", ID=ids[3], workamount_skill_mean_map={"a": 1.0}, cost_per_time=1.0)
        wp = BaseWorkplace("wp", ID=ids[4], facility_list=[f])
        wp.append_targeted_task(a)
        w0 = BaseWorker("w0", ID=ids[5], workamount_skill_mean_map={"a": 1.0, "b": 1.0}, facility_skill_map={"f": 1.0}, cost_per_time=1.0)
        w1 = BaseWorker("w1", ID=ids[6], workamount_skill_mean_map={"b": 1.0}, cost_per_time=2.0)
        tm = BaseTeam("tm", ID=ids[7], worker_list=[w0, w1])
        tm.extend_targeted_task_list([a, b])
        p = BaseProject(product=BaseProduct([c, d]), workflow=BaseWorkflow([a, b]), organization=BaseOrganization([tm], [wp]))
        if stop is not None:
            p.simulate(max_time=stop)
            return p
        p.simulate(max_time=20)
        return jdump(S.adopt(p))

    base = ["ta", "tb", "cc", "ff", "wp", "w0", "w1", "tm"]
    for pos in range(len(base)):
        for val in (0, ""):
            ids = list(base)
            ids[pos] = val
            try:
                d1, d2 = build(ids), build(ids)
            except Exception as e:
                col.extra["falsy-id-build-raised:%s" % type(e).__name__] += 1
                continue
            col.evaluations += 2
            col.checks["c09.falsy-ids"] += 1
            col.transitions.add(hash(("falsyid", pos, repr(val))))
            if d1 != d2:
                col.violation({"property": "C09", "sig": "C09:two-builds-with-the-same-explicit-IDs-differ(an-ID-of-0-or-empty-string)", "kind": "falsyid", "address_dependent": True,
                               "detail": {"ids": ids, "first_difference": first_diff(d1, d2)}})
            # the same model stopped after one step (the component is placed, the pair is at work): the copy rebuilt from its JSON goes on like the original
            import os
            import tempfile

            try:
                p1 = build(ids, stop=1)
                fd, path = tempfile.mkstemp(prefix="verif-c09f-", suffix=".json")
                os.close(fd)
                try:
                    p1.write_simple_json(path)
                    p2 = BaseProject()
                    p2.read_simple_json(path)
                finally:
                    os.unlink(path)
                p1.simulate(max_time=20, initialize_state_info=False, initialize_log_info=False)
                c1 = jdump(S.adopt(p1))
            except Exception as e:
                col.extra["falsy-id-continue-raised:%s" % type(e).__name__] += 1
                continue
            try:
                p2.simulate(max_time=20, initialize_state_info=False, initialize_log_info=False)
                c2 = jdump(S.adopt(p2))
            except Exception as e:  # the original objects went on to the end, the copy rebuilt from their file does not
                col.violation({"property": "C09", "sig": "C09:continuation-of-a-rebuilt-copy-raised-where-the-original-objects-went-on(an-ID-of-0-or-empty-string):%s" % type(e).__name__, "kind": "falsyid",
                               "detail": {"ids": ids, "error": repr(e)}})
                continue
            col.evaluations += 2
            col.checks["c09.falsy-ids-continued"] += 1
            if c1 != c2:
                col.violation({"property": "C09", "sig": "C09:continuation-of-a-rebuilt-copy-differs-from-the-original-objects(an-ID-of-0-or-empty-string)", "kind": "falsyid",
                               "detail": {"ids": ids, "first_difference(original, copy)": first_diff(c1, c2)}})


def cross_process(col):
    """Same sub-family in two fresh interpreters with different PYTHONHASHSEED, library classes (id hashes)."""
    here = os.path.dirname(os.path.dirname(os.path.dirname(os.path.abspath(__file__))))
    outs = []
    for seed in ("1", "4242"):
        env = dict(os.environ, PYTHONHASHSEED=seed)
        r = subprocess.run([sys.executable, "-c", _SUB % here], env=env, capture_output=True, text=True, cwd=here)
        if r.returncode != 0:
            raise RuntimeError("subprocess failed: " + r.stderr[-2000:])
        outs.append(r.stdout.strip())
    col.checks["c09.cross-process"] += 1
    col.extra["cross_process_models"] += int(outs[0].split()[0])
    col.evaluations += 2 * int(outs[0].split()[0])
    if outs[0] != outs[1]:
        col.violation({"property": "C09", "sig": "C09:fresh-process-result-differs", "kind": "proc", "address_dependent": True, "detail": {"digests": outs}})


# ---------------------------------------------------------------- iteration order of sets of STRINGS (IDs)
# The order in which CPython iterates a set of strings depends on the interpreter's hash seed, which a harness cannot set
# inside a running process.  It is owned from outside instead: fresh interpreters are started with PYTHONHASHSEED = 0, 1, 2, ...
# and each reports the order in which it iterates the probe ID sets; seeds are kept until every permutation of every probe
# set has been realised, and the string-sensitive models are then simulated under each kept seed.
ID_GROUPS = (("W0", "W1"), ("W0", "W1", "W2"), ("F0", "F1"), ("T0", "T1", "T2"))
_SUB_PROBE = "import sys; print(';'.join(','.join(set(g.split(','))) for g in sys.argv[1:]))"


def string_order_items():
    out = []
    # fixed worker-ID lists (the three IDs written in every order) x solo flags: whoever is visited first decides the result
    for fix in itertools.permutations(("W0", "W1", "W2")):
        for solo in ((True, True, True), (False, False, False), (False, True, False)):
            ws = [{"name": "W%d" % i, "skills": {"T0": (1.0, 2.0, 0.5)[i], "T1": 1.0}, "solo": solo[i], "cost": (3.0, 1.0, 2.0)[i]} for i in range(3)]
            sp = {"tasks": [{"name": "T0", "work": 4.0, "fixw": list(fix)}, {"name": "T1", "work": 2.0, "fixw": list(fix[:2])}], "links": [],
                  "teams": [{"name": "TM0", "targets": [0, 1], "workers": ws}]}
            out.append((sp, {"rule": "TSLACK", "max_time": 30}))
    for sp in list(F.fac_specs("quick"))[::6]:
        out.append((sp, {"rule": "TSLACK", "max_time": F.seq_bound(sp) + 6}))
    # fixed facility-ID lists
    for fixf in (["F0", "F1"], ["F1", "F0"]):
        for solo in (False, True):
            sp = {"tasks": [{"name": "T0", "work": 4.0, "nf": True, "fixf": fixf}], "links": [], "components": [{"name": "C0", "tasks": [0]}],
                  "workplaces": [{"name": "WP0", "cap": 1.0, "targets": [0], "facilities": [{"name": "F0", "skills": {"T0": 1.0}, "cost": 1.0, "solo": solo}, {"name": "F1", "skills": {"T0": 2.0}, "cost": 3.0, "solo": solo}]}],
                  "teams": [{"name": "TM0", "targets": [0], "workers": [{"name": "W0", "skills": {"T0": 1.0}, "fskills": {"F0": 1.0, "F1": 1.0}, "cost": 1.0}, {"name": "W1", "skills": {"T0": 1.0}, "fskills": {"F0": 1.0, "F1": 1.0}, "cost": 2.0}]}]}
            out.append((sp, {"rule": "TSLACK", "max_time": 30}))
    return out


_SUB_STR = r"""
import sys, json, hashlib
sys.path.insert(0, %r)
from mc.props import c09
from mc import runner
out = []
for spec, opts in c09.string_order_items():
    ex = runner.run(spec, dict(opts, phases=()))
    out.append(hashlib.sha256((c09.jdump(ex.m) if ex.error is None else 'ERR:' + ex.error).encode()).hexdigest())
print(json.dumps(out))
"""


def covering_seeds(max_seed=200):
    import math

    need = {g: math.factorial(len(g)) for g in ID_GROUPS}
    seen = {g: set() for g in ID_GROUPS}
    kept = []
    for s in range(max_seed):
        r = subprocess.run([sys.executable, "-c", _SUB_PROBE] + [",".join(g) for g in ID_GROUPS], env=dict(os.environ, PYTHONHASHSEED=str(s)), capture_output=True, text=True)
        if r.returncode != 0:
            raise RuntimeError("probe failed: " + r.stderr[-500:])
        orders = r.stdout.strip().split(";")
        new = False
        for g, o in zip(ID_GROUPS, orders):
            if o not in seen[g]:
                seen[g].add(o)
                new = True
        if new:
            kept.append(s)
        if all(len(seen[g]) == need[g] for g in ID_GROUPS):
            break
    return kept, {",".join(g): "%d/%d" % (len(seen[g]), need[g]) for g in ID_GROUPS}


def string_hash_seeds(col):
    """string-sensitive models under every iteration order of the probe ID sets (one fresh interpreter per covering hash seed)"""
    here = os.path.dirname(os.path.dirname(os.path.dirname(os.path.abspath(__file__))))
    seeds, cover = covering_seeds()
    res = {}
    for s in seeds:
        r = subprocess.run([sys.executable, "-c", _SUB_STR % here], env=dict(os.environ, PYTHONHASHSEED=str(s)), capture_output=True, text=True, cwd=here)
        if r.returncode != 0:
            raise RuntimeError("subprocess failed: " + r.stderr[-2000:])
        res[s] = json.loads(r.stdout.strip().splitlines()[-1])
    n = len(res[seeds[0]])
    col.checks["c09.string-hash-seeds"] += 1
    col.evaluations += n * len(seeds)
    col.extra["string_hash_seeds_used"] += len(seeds)
    col.extra["string_order_models"] += n
    for k, v in cover.items():
        col.extra["id-set-orders-realised {%s}: %s" % (k, v)] += 1
    for s in seeds:
        for i in range(n):
            col.transitions.add(hash(("strseed", s, i)))
    bad = [i for i in range(n) if len(set(res[s][i] for s in seeds)) > 1]
    if bad:
        i = bad[0]
        groups = {}
        for s in seeds:
            groups.setdefault(res[s][i], []).append(s)
        col.violation({"property": "C09", "sig": "C09:result-depends-on-string-hash-seed(iteration-order-of-a-set-of-IDs)", "kind": "strseed",
                       "detail": {"models_differing": len(bad), "of": n, "first_model_index(in string_order_items())": i, "spec": string_order_items()[i][0],
                                  "PYTHONHASHSEED values grouped by result": sorted(groups.values())}})


def run(tier, seed):
    pi = perm_items(tier)
    col = engines.fanout(pi, work_perms, seed=seed)
    hi = hist_items(tier)
    col.merge(engines.fanout(hi, work_hist, seed=seed))
    cross_process(col)
    history_dependence(col)
    default_id_rebuild(col)
    string_hash_seeds(col)
    falsy_id_rebuild(col)
    col.merge(engines.fanout(edit_cases(), work_edits, seed=seed))
    ei = event_items(tier)
    col.merge(engines.fanout(ei, work_events, seed=seed))
    meta = {
        "level": "model_checking",
        "rule": "schedule exploration: for every 3-task workflow over the four dependency kinds x works {1,2} x layouts x rules (thorough: also 4-task FS/FF/SS) and FAC models, ALL n! "
        "assignments of hash ranks to tasks (and all permutations for components), i.e. every iteration order of every internal set of tasks/components, complete dump compared with "
        "the identity order (and all orders of worker hashes); histories on one object (simulate;simulate, simulate with other absence/auto arguments or log edits or every read-only helper (queries, chart data, printing) then simulate, backward_simulate with every flag pair then simulate, a run stopped at step 1..3 and started again with everything reset or with the logs kept), rebuilt models with the library's id()-hashed classes, edits of the model between two runs on one object (team targeting added/removed, skill, work amount, solo flag, absence list extended in place, worker moved to another team, dependency added) compared with a freshly built edited model, contamination histories (activity on project A, then "
        "default-argument simulate on a fresh project B, mutable defaults compared), one sub-family in two fresh interpreters with different PYTHONHASHSEED, the same models in list order and in reversed order in two fresh interpreters (no dependence on what ran earlier in the process), models whose resources get generated default IDs built six times; models with fixed worker/facility ID lists x solo flags simulated in fresh interpreters under every iteration order of their ID sets (covering PYTHONHASHSEED values); per-iteration-event deviations: with a set subclass injected into the library's modules, every single iteration "
        "event of a run is given every alternative order of that set (deviation bound 1) on 2-3 task models; "
        "non-trivial = distinct models with at least one dependency link (permutations) or explored history roots",
        "bounds": {"perm_models": len(pi), "history_models": len(hi), "tasks": "3 (thorough 4)", "event_deviation_models": len(ei), "event_deviation_bound": 1},
        "assumptions": ["for small distinct integer hashes CPython sets iterate in ascending hash order, so n! hash-rank assignments realise every iteration order of the sets the library builds",
                        "string hashing is owned from outside: fresh interpreters under hash seeds chosen so that every iteration order of the probe ID sets {W0,W1}, {W0,W1,W2}, {F0,F1}, {T0,T1,T2} occurs (coverage in evidence.extra)"],
    }
    return col, meta


def replay(v):
    if v.get("kind") == "perm":
        base = run_perm(v["spec"], v["opts"], tuple(range(len(v["spec"]["tasks"]))), tuple(range(len(v["spec"].get("components", [])))) or None)
        ex = run_perm(v["spec"], v["opts"], v["perm"], v.get("cperm"), v.get("wperm"))
        a = jdump(base.m) if base.error is None else "ERR:" + base.error
        b = jdump(ex.m) if ex.error is None else "ERR:" + ex.error
        return [{"sig": v["sig"], "detail": first_diff(a, b) if not (a.startswith("ERR") or b.startswith("ERR")) else (a[:80], b[:80])}] if a != b else []
    if v.get("kind") == "hist":
        col = work_hist([(v["spec"], v["opts"])])
        return col.violations
    if v.get("kind") == "edit":
        col = work_edits([(v["spec"], v["spec_after"], v["edit"])])
        return [x for x in col.violations if x.get("nruns") == v.get("nruns")]
    if v.get("kind") == "event":
        col = work_events([(v["spec"], v["opts"])])
        return [x for x in col.violations if x.get("event") == v.get("event") and x.get("perm") == v.get("perm")]
    if v.get("kind") == "order":
        col = engines.Collector()
        history_dependence(col)
        return col.violations
    if v.get("kind") == "defaultid":
        col = engines.Collector()
        default_id_rebuild(col)
        return col.violations
    if v.get("kind") == "falsyid":
        col = engines.Collector()
        falsy_id_rebuild(col)
        return col.violations
    if v.get("kind") == "strseed":
        col = engines.Collector()
        string_hash_seeds(col)
        return col.violations
    if v.get("kind") == "proc":
        col = engines.Collector()
        cross_process(col)
        return col.violations
    return []
