"""C10 - absence is dead time."""
import itertools
import json

from .. import engines, families as F, monitors as M, runner, spec as S, stepcheck
from ..info import Info

MONS = [M.mon_c10]


def mon_step_kind(ex, info, col):
    """only the step-kind clause (for runs whose log index is not the step's time)"""
    out = []
    absn = set(ex.opts.get("absence") or ())
    for t in sorted(ex.lib_working):
        col.checks["c10.step-kind"] += 1
        if (t in absn) != (ex.lib_working[t] is False):
            out.append(M.V("C10", "C10:project-absence-step-treated-as-working-step" if t in absn else "C10:working-step-treated-as-project-absence-step", ex,
                           {"t": t, "absence_list": sorted(absn), "unit_time": ex.opts.get("unit_time"), "library_working_flag": ex.lib_working[t]}))
    return out


def logs_only(m):
    d = S.dump(m, live=False)
    d.pop("absence", None)
    return d


def diff_paths(a, b, path=()):
    if isinstance(a, dict) and isinstance(b, dict):
        for k in sorted(set(a) | set(b)):
            r = diff_paths(a.get(k), b.get(k), path + (k,))
            if r:
                return r
        return None
    if a != b:
        return path, a, b
    return None


def differential(spec, opts, absence, pause=None, via_json=False, numpy_ints=False):
    """simulate(absence=L); remove_absence_time_list()  vs  simulate(absence=[]); with pause=k the first run is stopped at step k and continued with the same list
    (via_json: the stopped project is written to JSON and continued in a new project object); numpy_ints: the list holds numpy integers (a calendar built with numpy)"""
    m1 = runner.prepare(spec, opts)
    kw = runner.sim_kwargs(dict(opts, absence=list(absence)))
    if numpy_ints:
        import numpy

        kw["absence_time_list"] = [numpy.int64(a) for a in absence]
    if pause is not None:
        m1.project.simulate(**dict(kw, max_time=pause))
        kw = dict(kw, initialize_state_info=False, initialize_log_info=False)
        if via_json:
            import os
            import tempfile
            from pDESy.model.base_project import BaseProject

            fd, path = tempfile.mkstemp(prefix="verif-c10p-", suffix=".json")
            os.close(fd)
            try:
                m1.project.write_simple_json(path)
                p2 = BaseProject()
                p2.read_simple_json(path)
                m1 = S.adopt(p2)
            finally:
                os.unlink(path)
    m1.project.simulate(**kw)
    t_with = m1.project.time
    m1.project.remove_absence_time_list()
    m2 = runner.prepare(spec, opts)
    m2.project.simulate(**runner.sim_kwargs(dict(opts, absence=[])))
    return m1, m2, t_with


def classify_diff(absence, t_with, d, rule="TSLACK"):
    if rule == "FIFO":
        return "C10:remove_absence_time_list-result-differs-from-absence-free-run:rule=FIFO(READY-count-includes-absence-steps)"
    beyond = [a for a in absence if a >= t_with]
    dup = len(set(absence)) != len(absence)
    tag = []
    if beyond:
        tag.append("absence-index-beyond-end-of-run")
    if dup:
        tag.append("duplicate-index")
    return "C10:remove_absence_time_list-result-differs-from-absence-free-run" + (":" + "+".join(tag) if tag else "") + ":" + str(d[0][0] if d and d[0] else "?")


def work_diff(chunk):
    col = engines.Collector()
    for spec, opts, maxlen, extra_idx in chunk:
        key = hash(repr(spec) + repr(opts))
        m0 = runner.prepare(spec, opts)
        m0.project.simulate(**runner.sim_kwargs(dict(opts, absence=[])))
        mk = m0.project.time
        if int(m0.project.status) != 1:
            # the absence-free run does not complete (resource deadlock): the differential makes no claim
            col.extra["differential-skipped-model-does-not-complete"] += 1
            continue
        # an absence-free result read (JSON) into a project object that has run with absence steps before: deleting "the absence steps" must change nothing
        import os
        import tempfile

        for absence in ((1,), (0, 2)):
            fd, path = tempfile.mkstemp(prefix="verif-c10-", suffix=".json")
            os.close(fd)
            try:
                m0.project.write_simple_json(path)
                mu = runner.prepare(spec, opts)
                mu.project.simulate(**runner.sim_kwargs(dict(opts, absence=list(absence))))
                mu.project.read_simple_json(path)
                mu.project.remove_absence_time_list()
                a, b = logs_only(S.adopt(mu.project)), logs_only(m0)
                col.evaluations += 2
                col.checks["c10.differential-after-load"] += 1
                col.transitions.add(hash((key, absence, "load")))
                d = diff_paths(a, b)
                if d:
                    col.violation({"property": "C10", "sig": "C10:remove_absence_time_list-changed-an-absence-free-result-read-into-a-used-project:" + str(d[0][0]), "kind": "diff-load", "spec": spec, "opts": opts,
                                   "absence": list(absence), "detail": {"first_difference(path, after-remove, absence-free)": d}})
            except Exception as e:
                col.violation({"property": "C10", "sig": "C10:differential-raised:%s" % type(e).__name__, "kind": "diff-load", "spec": spec, "opts": opts, "absence": list(absence), "detail": repr(e)})
            finally:
                os.unlink(path)
        idx = list(range(0, mk + 2)) + list(extra_idx)
        for k in range(1, maxlen + 1):
            for absence in itertools.combinations(idx, k):
                try:
                    m1, m2, t_with = differential(spec, opts, absence)
                except Exception as e:
                    col.violation({"property": "C10", "sig": "C10:differential-raised:%s" % type(e).__name__, "kind": "diff", "spec": spec, "opts": opts, "absence": list(absence), "detail": repr(e)})
                    continue
                col.evaluations += 2
                col.checks["c10.differential"] += 1
                col.transitions.add(hash((key, absence)))
                if int(m1.project.status) != 1 or int(m2.project.status) != 1:
                    col.extra["differential-skipped-run-did-not-complete"] += 1
                    continue
                a, b = logs_only(m1), logs_only(m2)
                col.states.add(hash((key, json.dumps(a, sort_keys=True, default=str))))
                if any(x < t_with for x in absence):
                    col.nontrivial.add(hash((key, absence)))
                d = diff_paths(a, b)
                if d:
                    col.violation({"property": "C10", "sig": classify_diff(absence, t_with, d, opts.get("rule")), "kind": "diff", "spec": spec, "opts": opts, "absence": list(absence),
                                   "detail": {"first_difference(path, after-remove, absence-free)": d, "makespan_with_absence": t_with}})
                col.outcomes[(t_with - mk)] += 1
                # the same list on a run that is stopped right after its first absence step and continued
                k0 = min(absence) + 1
                if not d and k0 < t_with:
                    try:
                        p1, p2, pt = differential(spec, opts, absence, pause=k0)
                    except Exception as e:
                        col.violation({"property": "C10", "sig": "C10:differential-raised:%s" % type(e).__name__, "kind": "diff", "spec": spec, "opts": opts, "absence": list(absence), "pause": k0, "detail": repr(e)})
                        continue
                    col.evaluations += 2
                    col.checks["c10.differential-paused"] += 1
                    col.transitions.add(hash((key, absence, "pause", k0)))
                    if int(p1.project.status) == 1:
                        dp = diff_paths(logs_only(p1), b)
                        if dp:
                            col.violation({"property": "C10", "sig": classify_diff(absence, pt, dp, opts.get("rule")) + ":run-stopped-and-continued", "kind": "diff", "spec": spec, "opts": opts, "absence": list(absence), "pause": k0,
                                           "detail": {"first_difference(path, after-remove, absence-free)": dp, "paused_at": k0}})
                    # ... and continued in a new project object read from the JSON written at the stop; and the same list given as numpy integers
                    for variant, vkw in (("continued-from-json", dict(pause=k0, via_json=True)), ("numpy-integer-list", dict(numpy_ints=True))):
                        if len(absence) > 2:
                            continue
                        try:
                            v1, _v2, vt = differential(spec, opts, absence, **vkw)
                        except Exception as e:
                            col.violation({"property": "C10", "sig": "C10:differential-raised:%s:%s" % (type(e).__name__, variant), "kind": "diff", "spec": spec, "opts": opts, "absence": list(absence), "variant": vkw, "detail": repr(e)})
                            continue
                        col.evaluations += 1
                        col.checks["c10.differential-" + variant] += 1
                        col.transitions.add(hash((key, absence, variant)))
                        dv = diff_paths(logs_only(v1), b) if int(v1.project.status) == 1 else [("status", int(v1.project.status), 1)]
                        if dv:
                            col.violation({"property": "C10", "sig": classify_diff(absence, vt, dv, opts.get("rule")) + ":" + variant, "kind": "diff", "spec": spec, "opts": opts, "absence": list(absence), "variant": vkw,
                                           "detail": {"first_difference(path, after-remove, absence-free)": dv}})
        # long holiday blocks (120 and 105 consecutive steps): the run must still complete - within the absence-free makespan plus the number of absence steps -
        # and, after the removal, equal the absence-free run
        if opts.get("rule") != "FIFO":
            for absence in (tuple(range(1, 121)), (0,) + tuple(range(mk // 2 + 1, mk // 2 + 106))):
                lo = dict(opts, max_time=mk + len(absence) + 3)
                try:
                    m1, m2, t_with = differential(spec, lo, absence)
                except Exception as e:
                    col.violation({"property": "C10", "sig": "C10:differential-raised:%s" % type(e).__name__, "kind": "diff-long", "spec": spec, "opts": lo, "absence": list(absence), "detail": repr(e)})
                    continue
                col.evaluations += 2
                col.checks["c10.differential-long-block"] += 1
                col.transitions.add(hash((key, "long", absence[:2], len(absence))))
                if int(m1.project.status) != 1:
                    col.violation({"property": "C10", "sig": "C10:run-with-absence-steps-did-not-complete-within-makespan-plus-absence-steps", "kind": "diff-long", "spec": spec, "opts": lo, "absence": list(absence),
                                   "detail": {"absence_free_makespan": mk, "absence_steps": len(absence), "max_time": lo["max_time"], "time": t_with, "status": int(m1.project.status)}})
                    continue
                d = diff_paths(logs_only(m1), logs_only(m2))
                if d:
                    col.violation({"property": "C10", "sig": classify_diff(absence, t_with, d, opts.get("rule")) + ":long-block", "kind": "diff-long", "spec": spec, "opts": lo, "absence": list(absence),
                                   "detail": {"first_difference(path, after-remove, absence-free)": d}})
        if len(col.samples) < 2:
            col.samples.append({"spec": spec, "opts": opts, "absence_lists": "all subsets of size <= %d of steps 0..%d plus %s" % (maxlen, mk + 1, list(extra_idx))})
    return col


def mon_items(tier):
    out = []
    flows = list(F.flows(3, ("FS", "SS", "FF"), (1, 2) if tier == "quick" else (1, 2, 3)))
    if tier == "quick":
        flows = flows[::2]
    for fl in flows:
        for lay in ("POOL2", "MIX"):
            for var in (0, 1):
                sp = F.with_teams(fl, lay)
                sp = dict(sp, tasks=[dict(t) for t in sp["tasks"]])
                if var == 1:
                    sp["tasks"][1]["auto"] = True
                    sp["tasks"][1]["unit"] = 0.5
                for aa in ((False, True) if var == 1 else (False,)):
                    for rule in (("TSLACK",) if tier == "quick" else ("TSLACK", "SPT", "FIFO")):
                        out.append((sp, {"rule": rule, "auto_abs": aa, "max_time": F.seq_bound(sp) + 10}))
    for sp in F.fac_specs(tier):
        out.append((sp, {"rule": "TSLACK", "max_time": F.seq_bound(sp) + 10}))
    # tasks that name their workers (the named worker may be away on the day the task becomes READY)
    for fl in list(F.flows(3, ("FS", "SS"), (1, 2)))[:: (3 if tier == "quick" else 1)]:
        for fx in (["W1"], ["W0", "W1"]):
            sp = F.with_teams(fl, "POOL2")
            sp = dict(sp, tasks=[dict(t) for t in sp["tasks"]])
            sp["tasks"][1]["fixw"] = fx
            sp["tasks"][2]["fixw"] = ["W1"]
            out.append((sp, {"rule": "TSLACK", "max_time": F.seq_bound(sp) * 2 + 10}))
    for sp in F.auto_component_specs():
        for aa in (False, True):
            out.append((sp, {"rule": "TSLACK", "auto_abs": aa, "max_time": F.seq_bound(sp) + 12}))
    # a manual task whose finishing waits for an automatic task (FF/SF), next to a long unrelated task that keeps the run going
    for kind in ("FF", "SF", "SS"):
        for w1 in (1.0, 2.0):
            for lay in ("DED", "MIX"):
                fl = {"tasks": [{"name": "T0", "work": 5.0}, {"name": "T1", "work": w1, "auto": True, "unit": 0.5}, {"name": "T2", "work": 1.0}], "links": [[1, 2, kind]]}
                sp = F.with_teams(fl, lay)
                for aa in (False, True):
                    out.append((sp, {"rule": "TSLACK", "auto_abs": aa, "max_time": 20}))
    return out


def diff_items(tier):
    out = []
    flows2 = list(F.flows(2, F.KINDS4, (1, 2)))
    for fl in flows2:
        for lay in ("POOL2", "POOL1"):
            sp = F.with_teams(fl, lay)
            for rule in ("TSLACK", "SPT"):
                out.append((sp, {"rule": rule, "max_time": 30}, 3 if tier == "quick" else 5, (9, 20)))
    subm = {"tasks": [{"name": "T0", "work": 2.0}, {"name": "S1", "work": 3.0, "sub": {}}, {"name": "T2", "work": 1.0}], "links": [[0, 1, "FS"], [1, 2, "FS"]],
            "teams": [{"name": "TM0", "targets": [0, 2], "workers": [{"name": "W0", "skills": {"T0": 1.0, "T2": 1.0}, "cost": 1.0}]}]}  # a sub-project task between two worked tasks
    out.append((subm, {"rule": "TSLACK", "max_time": 30}, 2, (12,)))
    flows3 = list(F.flows(3, ("FS", "SS", "FF"), (1, 2)))
    if tier == "quick":
        flows3 = flows3[::4]
    for fl in flows3:
        for lay in ("POOL2", "MIX"):
            for var in (0, 1, 2, 3):
                sp = F.with_teams(fl, lay)
                sp = dict(sp, tasks=[dict(t) for t in sp["tasks"]])
                if var == 1:
                    sp["tasks"][2]["auto"] = True
                elif var == 2:
                    sp["tasks"][0]["auto"] = True  # an automatic task as a predecessor (its start opens SS / SF gates)
                elif var == 3:
                    sp["tasks"][1]["auto"] = True
                    sp["tasks"][1]["unit"] = 0.5
                for rule in ("TSLACK", "FIFO"):
                    out.append((sp, {"rule": rule, "max_time": 40}, 2 if tier == "quick" else 3, (15,)))
    return out


def run(tier, seed):
    mi = mon_items(tier)
    H, D = (5, 2) if tier == "quick" else (6, 3)
    col = stepcheck.explore(mi, MONS, H, D, who_fn=lambda sp: ["P"], seed=seed)
    col.merge(stepcheck.explore(mi, MONS, 4, 1 if tier == "quick" else 2, seed=seed))
    # absence lists as a caller may write them: unsorted, with repeated steps, with steps beyond the end
    li = []
    for sp, o in mi[:: (6 if tier == "quick" else 2)]:
        for lst in ([2, 2, 4], [3, 1, 3, 5], [0, 0], [1, 1, 2, 40], [4, 2, 0]):
            li.append((sp, dict(o, absence=lst)))
    for sp in F.unsorted_absence_specs():
        li.append((sp, {"rule": "TSLACK", "max_time": 20}))
        li.append((sp, {"rule": "TSLACK", "max_time": 20, "absence": [1]}))
    # machine tasks that name their machine by ID while that machine (or the other one) is individually absent at the start, in the middle, or for the whole run
    for sp in F.named_machine_specs() + F.stuck_component_specs():
        for fn in F.facility_names(sp)[:2]:
            for cal in ([0], [0, 1], [1], [2, 3]):
                li.append((sp, {"rule": "TSLACK", "max_time": 24, "res_absence": {fn: cal}}))
    col.merge(stepcheck.explore(li, MONS, 0, 0, seed=seed))
    # a run that follows an earlier run on the same objects, with a worker's absence list edited in place in between
    col.merge(stepcheck.explore(stepcheck.edited_items(names=("worker-absence-inplace", "worker-absence-move")), MONS, 0, 0, seed=seed))
    col.merge(stepcheck.explore(stepcheck.resumed_edit_items(("worker-absence-append-3",), ks=(1, 2, 3)), MONS, 0, 0, seed=seed))
    # backward runs (inner run observed, logs left unreversed) with project-wide absence steps and both values of the automatic-task flag
    bi = [(sp, dict(o, backward=True, rev=False, absence=list(ab))) for sp, o in mi[:: (5 if tier == "quick" else 2)] for ab in ((1,), (0, 2), (2, 3))]
    # ... with the logs reversed, and forward results reversed by hand once or twice
    bi += [(sp, dict(o, backward=True, rev=True, absence=list(ab))) for sp, o in mi[:: (7 if tier == "quick" else 3)] for ab in ((1,), (0, 2), (2, 3))]
    bi += [(sp, dict(o, absence=list(ab), post_reverse=n)) for sp, o in mi[:: (7 if tier == "quick" else 3)] for ab in ((1,), (0, 2), (2, 3)) for n in (1, 2)]
    col.merge(stepcheck.explore(bi, MONS, 0, 0, seed=seed))
    # a step width other than 1: a step is an absence step exactly when its own time is in the list (times between two steps name no step)
    ut = [(sp, dict(o, unit_time=u, absence=list(ab), max_time=o["max_time"] * u)) for sp, o in mi[:: (9 if tier == "quick" else 3)] for u, ab in ((2, (1, 3)), (2, (3,)), (3, (1, 2, 4)))]
    col.merge(stepcheck.explore(ut, [mon_step_kind], 0, 0, seed=seed))
    # project-wide lists in any order and with repeated entries
    seqs = F.absence_sequences(5, 3)
    lit2 = [(sp, {"rule": "TSLACK", "auto_abs": aa, "max_time": 24, "absence": list(s)}) for sp in F.absence_probe_models() for aa in (False, True)
            for s in (seqs if tier == "thorough" else [q for q in seqs if len(q) != 2 or q[0] >= q[1]])]
    col.merge(stepcheck.explore(lit2, MONS, 0, 0, seed=seed))
    di = diff_items(tier)
    col.merge(engines.fanout(di, work_diff, seed=seed))
    col.merge(stepcheck.explore(F.scale_items(("TSLACK",)), MONS, 0, 0, seed=seed))  # medium-sized models (10-14 tasks / workers / machines), long absence lists
    col.merge(stepcheck.explore(F.extra_items(("TSLACK",), calendars=True), MONS, 0, 0, seed=seed))  # other ways of building the object graph; continuations under a revised calendar
    meta = {
        "level": "model_checking",
        "rule": "(monitors) FS/SS/FF workflows on 3 tasks x {POOL2,MIX} x automatic-task variants x both auto flags, and the FAC family, explored over project-wide absence answers to depth H "
        "with <= D absences and over all single absentees (project, each worker, each facility): no progress of non-automatic tasks, no new allocation, ABSENCE and zero cost logged, automatic "
        "progress iff flag, absent resource contributes nothing; (differential) every absence list that is a subset (size <= bound) of steps 0..makespan+1 plus indices far beyond the end, "
        "on all 2-task workflows (4 kinds) and FS/SS/FF 3-task workflows without component-bound automatic tasks, flag off: logs after simulate(absence=L); remove_absence_time_list() must equal "
        "the logs of simulate(absence=[]) - also when the first run is stopped right after its first absence step and continued; plus literal lists in any order with repeats, backward runs with both flag values, unit_time 2/3 with off-grid absence times (step-kind clause), absence lists edited between and during runs; non-trivial = distinct project-absence states / distinct in-range absence lists",
        "bounds": {"H": H, "D": D, "monitor_models": len(mi), "literal_list_runs(unsorted/repeated/beyond-end)": len(li) + len(lit2), "differential_models": len(di)},
        "assumptions": ["differential compares every log, time, costs and status (not live scratch state) and is claimed with the auto flag off"],
    }
    if col.checks["c10.absence-step"] == 0 or col.checks["c10.differential"] == 0:
        meta["vacuous"] = "no absence step observed"
    return col, meta


def replay(v):
    if v.get("kind") == "diff-load":
        col = work_diff([(v["spec"], v["opts"], 0, ())])
        return [x for x in col.violations if x.get("kind") == "diff-load" and x.get("absence") == v.get("absence")]
    if v.get("kind") == "diff-long":
        m1, m2, t_with = differential(v["spec"], v["opts"], v["absence"])
        if int(m1.project.status) != 1:
            return [{"sig": "C10:run-with-absence-steps-did-not-complete-within-makespan-plus-absence-steps", "detail": {"time": t_with}}]
        d = diff_paths(logs_only(m1), logs_only(m2))
        return [{"sig": classify_diff(v["absence"], t_with, d, v["opts"].get("rule")) + ":long-block", "detail": d}] if d else []
    if v.get("kind") == "diff" and v.get("variant"):
        vname = "continued-from-json" if v["variant"].get("via_json") else "numpy-integer-list"
        try:
            m1, m2, t_with = differential(v["spec"], v["opts"], v["absence"], **v["variant"])
        except Exception as e:
            return [{"sig": "C10:differential-raised:%s:%s" % (type(e).__name__, vname), "detail": repr(e)}]
        d = diff_paths(logs_only(m1), logs_only(m2)) if int(m1.project.status) == 1 else [("status", int(m1.project.status), 1)]
        return [{"sig": classify_diff(v["absence"], t_with, d, v["opts"].get("rule")) + ":" + vname, "detail": d}] if d else []
    if v.get("kind") == "diff":
        m1, m2, t_with = differential(v["spec"], v["opts"], v["absence"], pause=v.get("pause"))
        d = diff_paths(logs_only(m1), logs_only(m2))
        return [{"sig": classify_diff(v["absence"], t_with, d, v["opts"].get("rule")) + (":run-stopped-and-continued" if v.get("pause") is not None else ""), "detail": d}] if d else []
    return stepcheck.replay(v, MONS + [mon_step_kind] if (v.get("opts") or {}).get("unit_time") else MONS)
