"""C05 - termination, truthful status, completion of feasible projects."""
import itertools

from .. import engines, families as F, monitors as M, runner, spec as S, stepcheck
from ..info import Info

V = M.V


def check_status(ex, info, col, part):
    """status/time oracle on one finished execution."""
    out = []
    mt = ex.opts.get("max_time", 200)
    col.checks["c05.returns"] += 1
    if ex.error is not None:
        site = ex.error.split("@")[-1].strip() if "@" in ex.error else "?"
        out.append(V("C05", "C05:simulate-raised:%s@%s" % (ex.error.split(":")[0], site), ex, {"error": ex.error, "tb": (ex.error_tb or "")[-1500:]}))
        return out
    p = ex.project
    allfin = all(int(t.state) == S.T_FINISHED for t in p.workflow.task_list)
    st = int(p.status)
    col.checks["c05.status"] += 1
    if ex.steps > mt or p.time > mt:
        out.append(V("C05", "C05:simulated-a-step-at-or-beyond-max_time", ex, {"steps": ex.steps, "time": p.time, "max_time": mt}))
    for name, L in S.log_lengths(ex.m).items():
        if L > mt:
            out.append(V("C05", "C05:log-longer-than-max_time", ex, {"log": name, "len": L, "max_time": mt}))
            break
    if (st == 1) != allfin:
        out.append(V("C05", "C05:SUCCESS-iff-all-FINISHED-broken", ex, {"status": st, "all_finished": allfin}))
    if st == -1 and p.time != mt:
        out.append(V("C05", "C05:FAILURE-reported-before-max_time", ex, {"time": p.time, "max_time": mt}))
    if st not in (1, -1):
        out.append(V("C05", "C05:status-not-set", ex, {"status": st}))
    return out


def mon_feasible(ex, info, col):
    out = check_status(ex, info, col, "b")
    if ex.error is None:
        col.checks["c05.feasible"] += 1
        col.nontrivial.add(hash((info.key, "feasible", tuple(ex.opts.get("absence", ())), tuple(sorted((k, tuple(v)) for k, v in (ex.opts.get("res_absence") or {}).items())))))
        if int(ex.project.status) != 1:
            stuck = [(t.ID, S.TSTATE_NAME.get(int(t.state)), t.remaining_work_amount, [(p.ID, k.name, S.TSTATE_NAME.get(int(p.state))) for p, k in t.input_task_list])
                     for t in ex.project.workflow.task_list if int(t.state) != S.T_FINISHED]
            out.append(V("C05", "C05:feasible-project-did-not-complete", ex, {"time": ex.project.time, "max_time": ex.opts.get("max_time"), "unfinished": stuck}))
    return out


def mon_infeasible(ex, info, col):
    out = check_status(ex, info, col, "c")
    if ex.error is None:
        col.checks["c05.infeasible"] += 1
        col.nontrivial.add(hash((info.key, "infeasible")))
        if int(ex.project.status) == 1:
            out.append(V("C05", "C05:unservable-task-yet-SUCCESS", ex, {"time": ex.project.time}))
        elif ex.project.time != ex.opts.get("max_time"):
            out.append(V("C05", "C05:unservable-task-run-did-not-stop-at-max_time", ex, {"time": ex.project.time}))
    return out


def feasible_items(tier):
    out = []
    if tier == "quick":
        flows = list(F.flows(3, F.KINDS4, (1, 2)))
        rules = ("TSLACK", "SPT", "FIFO")
    else:
        flows = list(F.flows(3, F.KINDS4, (1, 2, 3)))
        rules = F.ALL_TASK_RULES
    for fl in flows:
        kinds = set(k for _, _, k in fl["links"])
        lays = ["DED"]
        if not (kinds & {"FF", "SF"}):
            lays += ["POOL1", "POOL2", "MIX"]
        for lay in lays:
            sp = F.with_teams(fl, lay)
            for rule in rules:
                out.append((sp, {"rule": rule, "max_time": F.seq_bound(sp) + 2 + 2}))
    # zero-work manual tasks (milestones): still feasible
    for fl in F.flows(3, ("FS", "SS", "FF"), (0, 2)):
        if all(t["work"] > 0 for t in fl["tasks"]) or (tier == "quick" and len(fl["links"]) > 2):
            continue
        sp = F.with_teams(fl, "DED")
        out.append((sp, {"rule": "TSLACK", "max_time": F.seq_bound(sp) + 6}))
    # fixed worker-ID lists naming a worker who does not sort first (still feasible: the listed worker is eligible)
    for fl in list(F.flows(3, ("FS", "SS"), (1, 2)))[:: (4 if tier == "quick" else 1)]:
        for fx, lay in ((["W1"], "POOL2"), (["W2", "W1"], "POOL3"), (["W1"], "MIX")):
            sp = F.with_teams(fl, lay)
            sp = dict(sp, tasks=[dict(t) for t in sp["tasks"]])
            sp["tasks"][1]["fixw"] = fx
            out.append((sp, {"rule": "TSLACK", "max_time": F.seq_bound(sp) * 2 + 6}))
    # teams wired through the constructor keyword only (the team knows its tasks, the tasks do not know the team)
    for fl in list(F.flows(3, ("FS",), (1, 2)))[:: (4 if tier == "quick" else 1)]:
        sp = F.with_teams(fl, "POOL2")
        sp = dict(sp, teams=[dict(tm, wire="ctor") for tm in sp["teams"]])
        out.append((sp, {"rule": "TSLACK", "max_time": F.seq_bound(sp) + 6}))
    # a task that is complete within the library's tolerance (0.7 + 0.2 + 0.1 booked) and that nobody is skilled for any more
    for fl in list(F.flows(3, ("FS", "SS"), (1, 2)))[:: (4 if tier == "quick" else 1)]:
        for prog in (1.0, 1.0 - 5e-11, 0.7 + 0.2 + 0.1):
            sp = F.with_teams(fl, "POOL2")
            sp = dict(sp, tasks=[dict(t) for t in sp["tasks"]], teams=[dict(tm, workers=[dict(w, skills={k: v for k, v in w["skills"].items() if k != "T0"}) for w in tm["workers"]]) for tm in sp["teams"]])
            sp["tasks"][0]["progress"] = prog
            out.append((sp, {"rule": "TSLACK", "max_time": F.seq_bound(sp) + 4}))
    # one component with two sequential facility tasks whose workplaces differ (every needed facility exists and is free: feasible)
    for sp in F.sequential_facility_specs():
        out.append((sp, {"rule": "TSLACK", "max_time": F.seq_bound(sp) + 4}))
    # nested products whose parts are worked first and whose room is needed again afterwards (every needed machine, worker and room becomes free: feasible)
    for sp in [x for x in F.nested_running_specs() if "two-parts-then-block" in x["label"] or "hull-leaves" in x["label"]] + [x for x in F.nested_order_specs() if "part-first" in x["label"]]:
        out.append((sp, {"rule": "TSLACK", "max_time": F.seq_bound(sp) + 6}))
    # machine tasks with a machine that is individually absent for a step or two in the middle of (or right before the end of) its task: still feasible
    for sp in F.sequential_facility_specs()[:2] + [x for x in F.usage_specs() if "machine-and-operator" in x["label"]]:
        for fn in F.facility_names(sp)[:2]:
            for cal in ([1], [2], [1, 2], [0, 3]):
                out.append((sp, {"rule": "TSLACK", "res_absence": {fn: cal}, "max_time": F.seq_bound(sp) + 8}))
    # a cabinet whose frame (0.1) and door (0.2) are made in a part shop of 0.3: the finished door stays there until the cabinet is assembled, the frame just fits
    for sizes, cap in (((0.1, 0.2), 0.3), ((0.2, 0.1), 0.3), ((0.7, 0.1), 0.8), ((1.0, 2.0), 3.0)):
        for order in ((0, 1), (1, 0)):
            sp = {"tasks": [{"name": "make_frame", "work": 2.0, "nf": True}, {"name": "make_door", "work": 1.0, "nf": True}, {"name": "assemble", "work": 1.0, "nf": True}], "links": [[0, 2, "FS"], [1, 2, "FS"], [order[1], order[0], "FS"]],
                  "components": [{"name": "cabinet", "tasks": [2], "children": [1, 2], "space": 1.0}, {"name": "frame", "tasks": [0], "space": sizes[0]}, {"name": "door", "tasks": [1], "space": sizes[1]}],
                  "workplaces": [{"name": "shop", "cap": cap, "targets": [0, 1], "facilities": [{"name": "bench", "skills": {"make_frame": 1.0, "make_door": 1.0}}]},
                                 {"name": "hall", "cap": 5.0, "targets": [2], "facilities": [{"name": "jig", "skills": {"assemble": 1.0}}]}],
                  "teams": [{"name": "TM0", "targets": [0, 1, 2], "workers": [{"name": "W0", "skills": {"make_frame": 1.0, "make_door": 1.0, "assemble": 1.0}, "fskills": {"bench": 1.0, "jig": 1.0}, "cost": 1.0}]}]}
            out.append((sp, {"rule": "TSLACK", "max_time": 24}))
    # a two-pair machine task whose last work is done by one pair while the other pair's machine is away; the follow-up task needs exactly that machine
    for w0 in (3.0, 5.0):
        for cal in ([1], [2], [1, 2]):
            for who in ("robot", "ann"):
                sp = {"tasks": [{"name": "T0", "work": w0, "nf": True}, {"name": "T1", "work": 2.0, "nf": True}], "links": [[0, 1, "FS"]], "components": [{"name": "C0", "tasks": [0, 1]}],
                      "workplaces": [{"name": "dock", "cap": 1.0, "targets": [0, 1], "facilities": [{"name": "robot", "skills": {"T0": 1.0, "T1": 1.0}}, {"name": "crane", "skills": {"T0": 1.0}}]}],
                      "teams": [{"name": "TM0", "targets": [0, 1], "workers": [{"name": "ann", "skills": {"T0": 1.0, "T1": 1.0}, "fskills": {"robot": 1.0, "crane": 1.0}, "cost": 1.0},
                                                                            {"name": "bob", "skills": {"T0": 1.0}, "fskills": {"robot": 1.0, "crane": 1.0}, "cost": 1.0}]}]}
                out.append((sp, {"rule": "TSLACK", "res_absence": {who: cal}, "max_time": 20}))
    # automatic tasks bound to a component (workplace without space limit): feasible without any free worker
    for sp in F.auto_placement_specs():
        for aa in (False, True):
            out.append((sp, {"rule": "TSLACK", "auto_abs": aa, "max_time": F.seq_bound(sp) + 4}))
    if tier == "thorough":
        for fl in F.flows(4, F.KINDS4, (1,)):
            sp = F.with_teams(fl, "DED")
            out.append((sp, {"rule": "TSLACK", "max_time": F.seq_bound(sp) + 4}))
    return out


def infeasible_items(tier):
    out = []
    for fl in list(F.flows(3, ("FS", "SS"), (1,)))[:: (3 if tier == "quick" else 1)]:
        for why in ("skill0", "missing", "team", "fixed", "fixed-empty", "below-tol", "negative"):
            sp = F.with_teams(fl, "POOL2")
            sp = dict(sp, tasks=[dict(t) for t in sp["tasks"]], teams=[dict(tm, workers=[dict(w, skills=dict(w["skills"])) for w in tm["workers"]]) for tm in sp["teams"]])
            victim = 1
            vn = sp["tasks"][victim]["name"]
            if why == "skill0":
                for w in sp["teams"][0]["workers"]:
                    w["skills"][vn] = 0.0
            elif why == "missing":
                for w in sp["teams"][0]["workers"]:
                    del w["skills"][vn]
            elif why == "below-tol":
                for w in sp["teams"][0]["workers"]:
                    w["skills"][vn] = 1e-11
            elif why == "team":
                sp["teams"][0]["targets"] = [0, 2]
            elif why == "fixed":
                sp["tasks"][victim]["fixw"] = ["nobody"]
            elif why == "fixed-empty":
                sp["tasks"][victim]["fixw"] = []
            elif why == "negative":
                for w in sp["teams"][0]["workers"]:
                    w["skills"][vn] = -0.5
            for mt in (0, 1, 5, 12):
                out.append((sp, {"rule": "TSLACK", "max_time": mt}))
    # the only skilled, team-assigned worker works solo and is shut out by the fixed-ID list (which names nobody / a colleague without the skill);
    # a facility task whose only skilled worker works solo and has no licence for the machine
    for fx in (["nobody"], ["W1"], []):
        sp = {"tasks": [{"name": "T0", "work": 2.0, "fixw": fx}, {"name": "T1", "work": 1.0}], "links": [],
              "teams": [{"name": "TM0", "targets": [0, 1], "workers": [{"name": "W0", "skills": {"T0": 1.0, "T1": 1.0}, "solo": True, "cost": 1.0}, {"name": "W1", "skills": {"T1": 1.0}, "cost": 1.0}]}]}
        for mt in (5, 12):
            out.append((sp, {"rule": "TSLACK", "max_time": mt}))
    for fsk in ({}, {"F0": 0.0}, {"F1": 1.0}):
        sp = {"tasks": [{"name": "T0", "work": 2.0, "nf": True}, {"name": "T1", "work": 1.0}], "links": [], "components": [{"name": "C0", "tasks": [0]}],
              "workplaces": [{"name": "WP0", "cap": 1.0, "targets": [0], "facilities": [{"name": "F0", "skills": {"T0": 1.0}}]}],
              "teams": [{"name": "TM0", "targets": [0, 1], "workers": [{"name": "W0", "skills": {"T0": 1.0, "T1": 1.0}, "fskills": dict(fsk), "solo": True, "cost": 1.0}]}]}
        for mt in (5, 12):
            out.append((sp, {"rule": "TSLACK", "max_time": mt}))
    # one component with two sequential machine tasks: the first task's workplace has a machine skilled for the second task but is not assigned to it,
    # and the workplace that is assigned to it has no machine for it: nobody may ever serve the second task
    for sk2 in ({}, {"paint": 0.0}):
        sp = {"tasks": [{"name": "weld", "work": 2.0, "nf": True}, {"name": "paint", "work": 2.0, "nf": True}], "links": [[0, 1, "FS"]], "components": [{"name": "C0", "tasks": [0, 1]}],
              "workplaces": [{"name": "WP1", "cap": 1.0, "targets": [0], "facilities": [{"name": "f1", "skills": {"weld": 1.0, "paint": 1.0}}]},
                             {"name": "WP2", "cap": 1.0, "targets": [1], "facilities": [{"name": "f2", "skills": dict(sk2)}]}],
              "teams": [{"name": "TM0", "targets": [0, 1], "workers": [{"name": "W0", "skills": {"weld": 1.0, "paint": 1.0}, "fskills": {"f1": 1.0, "f2": 1.0}, "cost": 1.0}]}]}
        for mt in (12, 30):
            out.append((sp, {"rule": "TSLACK", "max_time": mt}))
    # a machine task whose fixed worker list shuts out the only worker who holds the machine's licence
    for fx in (["bob"], [], ["nobody"]):
        sp = {"tasks": [{"name": "T0", "work": 2.0, "nf": True, "fixw": fx}, {"name": "T1", "work": 1.0}], "links": [], "components": [{"name": "C0", "tasks": [0]}],
              "workplaces": [{"name": "WP0", "cap": 1.0, "targets": [0], "facilities": [{"name": "robot", "skills": {"T0": 1.0}}]}],
              "teams": [{"name": "TM0", "targets": [0, 1], "workers": [{"name": "ann", "skills": {"T0": 1.0, "T1": 1.0}, "fskills": {"robot": 1.0}, "cost": 1.0},
                                                                    {"name": "bob", "skills": {"T0": 1.0, "T1": 1.0}, "cost": 1.0}]}]}
        for mt in (6, 14):
            out.append((sp, {"rule": "TSLACK", "max_time": mt}))
    # workers built without the skill keyword and filled in place: the unskilled one must not inherit anything
    for links in ([], [[0, 1, "FS"]]):
        sp = {"tasks": [{"name": "T0", "work": 1.0}, {"name": "T1", "work": 1.0}], "links": links,
              "teams": [{"name": "TM0", "targets": [0], "workers": [{"name": "W0", "skills": {"T0": 1.0, "T1": 1.0}, "skills_inplace": True}]},
                        {"name": "TM1", "targets": [1], "workers": [{"name": "W1", "skills": {}, "skills_inplace": True}]}]}
        for mt in (5, 12):
            out.append((sp, {"rule": "TSLACK", "max_time": mt}))
    return out


def history_items(tier):
    out = []
    for fl in list(F.flows(2, ("FS", "SS"), (2, 3)))[:: (2 if tier == "quick" else 1)]:
        out.append(F.with_teams(fl, "POOL1"))
        out.append(F.with_teams(fl, "DED"))
    # one part passing three stations linked by conveyors; the organization lists the stations downstream-first
    names = ["cut", "weld", "paint"]
    line3 = {"tasks": [{"name": nm, "work": 2.0, "nf": True} for nm in names], "links": [[0, 1, "FS"], [1, 2, "FS"]], "components": [{"name": "part", "tasks": [0, 1, 2], "space": 1.0}],
             "workplaces": [{"name": "st3", "cap": 1.0, "targets": [2], "inputs": [1], "facilities": [{"name": "f3", "skills": {"paint": 1.0}}]},
                            {"name": "st2", "cap": 1.0, "targets": [1], "inputs": [2], "facilities": [{"name": "f2", "skills": {"weld": 1.0}}]},
                            {"name": "st1", "cap": 1.0, "targets": [0], "facilities": [{"name": "f1", "skills": {"cut": 1.0}}]}],
             "teams": [{"name": "TM0", "targets": [0, 1, 2], "workers": [{"name": "W0", "skills": {nm: 1.0 for nm in names}, "fskills": {"f1": 1.0, "f2": 1.0, "f3": 1.0}, "cost": 1.0}]}]}
    out.append(line3)
    # three tails with different due times (the backward run with due times attaches helper tasks)
    sp = F.with_teams({"tasks": [{"name": "T0", "work": 2.0, "due": 6}, {"name": "T1", "work": 1.0, "due": 3}, {"name": "T2", "work": 2.0, "due": 4}], "links": []}, "DED")
    out.append(sp)
    return out


HIST_OPS = ("sim", "sim-abs", "insert", "remove", "back", "back-due", "init")


def work_history(chunk):
    """activity on project A (and on B itself), then B.simulate(max_time=bound) with every other keyword left to its default: B is feasible and must complete"""
    import itertools as _it

    col = engines.Collector()
    for sp in chunk:
        info = Info(sp)
        bound = F.seq_bound(sp) + 4
        for hist in [h for n in (1, 2) for h in _it.product(HIST_OPS, repeat=n)]:
            for on_b in (False, True):
                a = S.build(sp)
                b = S.build(sp)
                tgt = b if on_b else a
                try:
                    for op in hist:
                        if op == "sim":
                            tgt.project.simulate(max_time=bound)
                        elif op == "sim-abs":
                            tgt.project.simulate(max_time=bound + 2, absence_time_list=[0, 1])
                        elif op == "insert":
                            tgt.project.insert_absence_time_list(list(range(0, bound + 6)))
                        elif op == "remove":
                            tgt.project.remove_absence_time_list()
                        elif op == "back":
                            tgt.project.backward_simulate(max_time=bound)
                        elif op == "back-due":
                            tgt.project.backward_simulate(max_time=bound, considering_due_time_of_tail_tasks=True)
                        elif op == "init":
                            tgt.project.initialize()
                except TimeoutError as e:
                    # (the harness watchdog: the call did not come back)
                    exh = runner.Exec(sp, {"max_time": bound, "history": list(hist), "history_on_same_project": on_b})
                    exh.m = tgt
                    col.violation(dict(M.V("C05", "C05:call-did-not-return:%s" % op, exh, {"history": list(hist), "error": repr(e)}), kind="history"))
                    continue
                except Exception:
                    col.aborted["history-op-raised"] += 1
                    continue
                ex = runner.Exec(sp, {"max_time": bound, "history": list(hist), "history_on_same_project": on_b})
                ex.m = b
                try:
                    b.project.simulate(max_time=bound)
                except Exception as e:
                    ex.error = "%s: %s" % (type(e).__name__, e)
                col.evaluations += 1
                col.checks["c05.history"] += 1
                key = hash((info.key, hist, on_b))
                col.transitions.add(key)
                col.states.add(key)
                col.nontrivial.add(key)
                for v in check_status(ex, info, col, "h"):
                    col.violation(dict(v, kind="history"))
                if ex.error is None and int(b.project.status) != 1:
                    col.violation(dict(M.V("C05", "C05:feasible-project-did-not-complete:after-history-with-default-keywords", ex, {"history": list(hist), "on_same_project": on_b, "time": b.project.time, "max_time": bound}), kind="history"))
    return col


def cut_items(tier):
    out = []
    flows = list(F.flows(3, F.KINDS4, (1, 2)))
    if tier == "quick":
        flows = flows[::2]
    for fl in flows:
        for lay in ("POOL2", "DED"):
            out.append(F.with_teams(fl, lay))
    out += list(F.fac_specs(tier))
    # nested products: parent/child/grand-child with tasks that are ready together
    for nf in (False, True):
        for shape in ("pc", "pcg"):
            comps = [{"name": "C0", "tasks": [0], "children": [1]}, {"name": "C1", "tasks": [1]}]
            tasks = [{"name": "T0", "work": 2.0, "nf": nf}, {"name": "T1", "work": 1.0, "nf": nf}]
            if shape == "pcg":
                comps[1]["children"] = [2]
                comps.append({"name": "C2", "tasks": [2]})
                tasks.append({"name": "T2", "work": 1.0, "nf": nf})
            n = len(tasks)
            full = {t["name"]: 1.0 for t in tasks}
            for links in ([], [[1, 0, "FS"]]):
                for cap in (1.0, 3.0):
                    sp = {"tasks": [dict(t) for t in tasks], "links": links, "components": comps,
                          "workplaces": [{"name": "WP0", "cap": cap, "targets": list(range(n)), "facilities": [{"name": "F0", "skills": dict(full)}, {"name": "F1", "skills": dict(full)}]},
                                         {"name": "WP1", "cap": cap, "targets": list(range(n)), "facilities": [{"name": "F2", "skills": dict(full)}]}],
                          "teams": [{"name": "TM0", "targets": list(range(n)), "workers": [{"name": "W%d" % i, "skills": dict(full), "fskills": {"F0": 1.0, "F1": 1.0, "F2": 1.0}} for i in range(3)]}]}
                    out.append(sp)
    return out


def work_cuts(chunk):
    col = engines.Collector()
    for sp in chunk:
        info = Info(sp)
        big = F.seq_bound(sp) + 6
        ex0 = runner.run(sp, {"max_time": big, "phases": ()})
        col.evaluations += 1
        for v in check_status(ex0, info, col, "a"):
            col.violation(v)
        mk = ex0.project.time if ex0.error is None else 3
        col.outcomes[(int(ex0.project.status), ex0.error)] += 1
        for k in range(0, min(mk, big) + 2):
            ex = runner.run(sp, {"max_time": k, "phases": (), "want_canon": True})
            col.evaluations += 1
            for c in ex.canon.values():
                col.states.add(hash((info.key, c)))
            col.transitions.add(hash((info.key, "cut", k)))
            if ex.error is None and int(ex.project.status) == -1:
                col.nontrivial.add(hash((info.key, "cut", k)))
            if ex.error is not None:
                col.aborted[ex.error] += 1
            for v in check_status(ex, info, col, "a"):
                col.violation(v)
    return col


def run(tier, seed):
    H, D = (4, 2) if tier == "quick" else (4, 2)
    fe = feasible_items(tier)
    if tier == "quick":
        # keep the quick tier short: deviation bound 2 on the TSLACK slice, 1 on the other rules
        fe1 = [it for it in fe if it[1]["rule"] != "TSLACK"]
        fe2 = [it for it in fe if it[1]["rule"] == "TSLACK"]
        colb = stepcheck.explore(fe1, [mon_feasible], H, 1, who_fn=lambda sp: stepcheck.default_who(sp, facilities=False), seed=seed)
        colb.merge(stepcheck.explore(fe2, [mon_feasible], H, 2, who_fn=lambda sp: stepcheck.default_who(sp, facilities=False), seed=seed))
    else:
        colb = stepcheck.explore(fe, [mon_feasible], H, D, who_fn=lambda sp: stepcheck.default_who(sp, facilities=False), seed=seed)
    colb.merge(stepcheck.explore(stepcheck.edited_items(names=("team-add-target", "worker-skill", "task-work", "worker-absence-inplace", "worker-solo", "add-link", "restaff", "add-task", "move-facility")), [mon_feasible], 0, 0, seed=seed))
    # stopped mid-task and started again with the states reset (logs kept): still feasible
    rs = stepcheck.restarted_items([it for it in fe if it[1]["rule"] == "TSLACK"][:: (6 if tier == "quick" else 2)], ks=(1, 2, 3))
    colb.merge(stepcheck.explore(rs, [mon_feasible], 0, 0, seed=seed))
    rb = [(sp, dict(o, resume_from=k, resume_via_json=how)) for sp, o in [it for it in fe if it[1]["rule"] == "TSLACK"][:: (9 if tier == "quick" else 3)] for k in (1, 2) for how in (True, "same")]
    rb += [(sp, dict(o, rule=r, resume_from=1, resume_via_json=True)) for sp, o in [it for it in fe if it[1]["rule"] == "TSLACK"][:: (13 if tier == "quick" else 4)] for r in ("LWRPT", "SWRPT", "FIFO")]
    colb.merge(stepcheck.explore(rb, [mon_feasible], 0, 0, seed=seed))  # a checkpoint read back (new object / same object) before the run goes on
    colb.merge(engines.fanout(history_items(tier), work_history, seed=seed))
    sc = [(sp, dict(o, max_time=o["max_time"] + 30)) for sp, o in F.scale_items(("TSLACK", "SPT")) if sp["label"] in ("scale:wide12", "scale:wide12-6workers", "scale:layers3x4", "scale:seven-predecessors", "scale:8components", "scale:ten-predecessors", "scale:nine-successors",
                                                                                                          "scale:ambiguous-ids-workers", "scale:ambiguous-ids-teams", "scale:queue-of-nine")
          and not o.get("res_absence")]
    sc += [(sp, dict(o, max_time=o["max_time"] + 30, phases=())) for sp, o in F.large_items(("TSLACK", "SPT"))
           if not any(k in ("FF", "SF") for _, _, k in sp["links"])]  # the larger catalogue (20-30 tasks, runs of up to 160 steps); models with FF/SF links and shared workers may deadlock (precondition)
    # other ways of building the same object graph (copy twins, value-equal and container subclasses, a project created empty and filled afterwards)
    sc += [(sp, dict(o, max_time=o["max_time"] + 10, phases=())) for sp, o in F.usage_items(("TSLACK",)) if "parent-child:one-cap1" not in sp["label"] and not o.get("presim_back")]
    lad = F.diamond_ladder_spec(32)
    sc.append((lad, {"rule": "TSLACK", "max_time": 3 * 32 + 10, "phases": ()}))  # 97 tasks in 32 reconvergent stages (2^32 paths)
    colb.merge(stepcheck.explore(sc, [mon_feasible], 0, 0, seed=seed))  # medium-sized feasible models
    # follow-up work: a task is added (through the public API) at a stop or after the project has completed, and the run is continued with state and logs kept
    colb.merge(stepcheck.explore(stepcheck.resumed_edit_items(("add-task",), ks=(1, 2, 4, 12)), [mon_feasible], 0, 0, seed=seed))
    inf = infeasible_items(tier)
    colc = stepcheck.explore(inf, [mon_infeasible], 2, 1, who_fn=lambda sp: ["P"], seed=seed)
    cuts = cut_items(tier)
    cola = engines.fanout(cuts, work_cuts, seed=seed)
    col = cola.merge(colb).merge(colc)
    meta = {
        "level": "model_checking",
        "rule": "(a) every max_time cut k in 0..makespan+1 of every 3-task workflow (4 kinds, works {1,2}) x {POOL2,DED}, of the FAC family and of nested parent/child(/grand-child) "
        "products: returns, no step at/after max_time, SUCCESS iff all FINISHED, FAILURE only at max_time; (b) feasible family: all 3-task workflows x works x layouts satisfying the "
        "precondition (own worker per task when FF/SF links occur) x task rules, automatic tasks whose component needs a placement while no worker is free, restarts with the states reset at step 1..3, and keyword-less simulate() after every history of <= 2 operations (simulate, simulate with absence, insert, remove, backward, initialize) on another or the same project, all absence answers (project, each worker) up to H with <= D non-default answers, "
        "max_time = sequential work bound + H absences: must be SUCCESS; (c) infeasible family: one non-automatic task nobody can serve (skill 0 / missing / below tolerance / "
        "team not targeting / fixed-ID list) x max_time in {0,1,5,12}: never SUCCESS, stops at max_time. non-trivial = distinct (model, cut k giving FAILURE) + distinct feasible (model, absence pattern) + infeasible models",
        "bounds": {"H": H, "D": D, "feasible_models": len(fe), "infeasible": len(inf), "cut_models": len(cuts)},
        "assumptions": ["feasibility precondition read conservatively: facility-free teams; with FF/SF links every task has a dedicated worker",
                        "sequential work bound = sum over tasks of ceil(work/slowest eligible skill)+1, plus the number of absence answers"],
    }
    if col.checks["c05.feasible"] == 0 or col.checks["c05.infeasible"] == 0:
        meta["vacuous"] = "feasible or infeasible part empty"
    return col, meta


def replay(v):
    if v.get("kind") == "history":
        col = work_history([v["spec"]])
        return [x for x in col.violations if x["opts"].get("history") == v["opts"].get("history") and x["opts"].get("history_on_same_project") == v["opts"].get("history_on_same_project")]
    ex = runner.run(v["spec"], dict(v["opts"], phases=()))
    info = Info(v["spec"])
    col = engines.Collector()
    out = check_status(ex, info, col, "a")
    if ex.error is None:
        if v["sig"].startswith("C05:feasible"):
            out += mon_feasible(ex, info, col)
        if v["sig"].startswith("C05:unservable"):
            out += mon_infeasible(ex, info, col)
    return out
