"""C17 - backward simulation leaves the model intact and respects dependencies."""
import itertools

from .. import bootstrap, engines, families as F, runner, spec as S
from .c09 import jdump, first_diff
from . import c08

PHASES = ("updated", "allocated", "performed", "recorded")


def structure(m):
    """identity and order of every dependency list / workplace link list / the task list"""
    s = {"task_list": [id(t) for t in m.project.workflow.task_list]}
    for t in m.project.workflow.task_list:
        s["in " + t.ID] = [(id(x), int(d)) for x, d in t.input_task_list]
        s["out " + t.ID] = [(id(x), int(d)) for x, d in t.output_task_list]
        s["inlist-id " + t.ID] = id(t.input_task_list)
        s["outlist-id " + t.ID] = id(t.output_task_list)
    for wp in m.project.organization.workplace_list:
        s["wp-in " + wp.ID] = [id(x) for x in wp.input_workplace_list]
        s["wp-out " + wp.ID] = [id(x) for x in wp.output_workplace_list]
    return s


def back_kwargs(opts, cal=None):
    kw = runner.sim_kwargs(opts)
    if cal is not None:
        kw["absence_time_list"] = cal  # the caller's own list object (used again for the later forward run)
    kw["considering_due_time_of_tail_tasks"] = bool(opts.get("due"))
    kw["reverse_log_information"] = bool(opts.get("rev", True))
    return kw


def one_case(spec, opts, fault, ftype="exception", pre_runs=0):
    """returns (list of (sig, detail), steps of the inner run, success flag)"""
    out = []
    a = runner.prepare(spec, opts)
    b = runner.prepare(spec, opts)
    if opts.get("via_json"):
        # the project under test is a copy that went through write_simple_json / read_simple_json (its first run is the backward one)
        import os
        import tempfile
        from pDESy.model.base_project import BaseProject

        fd, path = tempfile.mkstemp(prefix="verif-c17-", suffix=".json")
        os.close(fd)
        try:
            a.project.write_simple_json(path)
            p2 = BaseProject()
            p2.read_simple_json(path)
            a = S.adopt(p2)
        finally:
            os.unlink(path)
    before = structure(a)
    cal = list(opts.get("absence", []))  # one calendar object in the caller's hands, passed to every run on the project under test
    for _ in range(pre_runs):
        # earlier, undisturbed backward runs on the same object (the examined run must behave like a first one)
        try:
            a.project.backward_simulate(**back_kwargs(opts))
        except Exception as e:
            out.append(("C17:earlier-backward-run-raised:%s" % type(e).__name__, {"error": repr(e)}))
            return out, 0, False
    names_before = [t.ID for t in a.project.workflow.task_list]
    ex = runner.Exec(spec, opts)
    bootstrap.set_observer(runner.make_observer(ex, phases=(), fault=fault, fault_type=runner.InjectedInterrupt if ftype == "interrupt" else runner.InjectedFault))
    err = None
    import warnings

    try:
        if opts.get("warn_error"):
            # the caller runs with warnings turned into errors: the "Time Over" warning of the cut inner run aborts backward_simulate
            with warnings.catch_warnings():
                warnings.simplefilter("error")
                a.project.backward_simulate(**back_kwargs(opts, cal))
        else:
            a.project.backward_simulate(**back_kwargs(opts, cal))
    except (runner.InjectedFault, runner.InjectedInterrupt):
        err = "injected"
    except Warning:
        err = "injected"  # an abort like any other
    except Exception as e:
        err = repr(e)
    finally:
        bootstrap.clear_observer()
    tag = ("after-injected-%s" % ftype) if fault else ("after-warning-as-error" if opts.get("warn_error") else "after-normal-run")
    if err is not None and err != "injected":
        out.append(("C17:backward_simulate-raised:%s" % err.split("(")[0], {"error": err}))
    if opts.get("warn_error") and err is None:
        fault = None
    if fault and err is None:
        # the fault point lies beyond the end of the inner run: nothing was injected
        return out, ex.steps, None
    after = structure(a)
    if after != before:
        keys = sorted(k for k in before if before.get(k) != after.get(k)) + sorted(k for k in after if k not in before)
        kinds = sorted(set(k.split(" ")[0] for k in keys))
        out.append(("C17:structure-changed:%s:%s" % (tag, ",".join(kinds)), {"changed": keys[:6]}))
    if [t.ID for t in a.project.workflow.task_list] != names_before:
        out.append(("C17:helper-task-left-in-workflow:%s" % tag, {"task_list": [t.ID for t in a.project.workflow.task_list]}))
    ok = err is None and int(a.project.status) == 1
    if ok:
        # one entry per simulated step, counted by the harness observer while the inner run was going on (not read from the library's own clock)
        if not fault and not opts.get("warn_error") and ex.steps and (a.project.time != ex.steps or len(a.project.cost_list) != ex.steps):
            out.append(("C17:result-of-backward-run-has-fewer-or-more-entries-than-steps-were-simulated", {"steps_simulated": ex.steps, "time": a.project.time, "cost_list_length": len(a.project.cost_list)}))
        L = S.log_lengths(a)
        if len(set(L.values()) | {a.project.time}) != 1:
            out.append(("C17:logs-not-aligned-after-backward-run", {"time": a.project.time, "lengths": sorted(set(L.values()))}))
        # FS clause in forward-time reading
        fwd = {}
        for t in a.project.workflow.task_list:
            log = [int(s) for s in t.state_record_list]
            fwd[t.ID] = log if opts.get("rev", True) else log[::-1]
        for t in a.project.workflow.task_list:
            for p, d in t.input_task_list:
                if int(d) != 0:
                    continue
                if p.ID not in fwd:
                    out.append(("C17:task-is-linked-to-a-task-that-is-no-longer-in-the-workflow", {"task": t.ID, "missing": p.ID}))
                    continue
                lt, lp = fwd[t.ID], fwd[p.ID]
                ks = [k for k, s in enumerate(lt) if s == S.T_WORKING]
                if ks:
                    k0 = min(ks)
                    late = [j for j in range(k0, len(lp)) if lp[j] == S.T_WORKING]
                    if late:
                        out.append(("C17:task-WORKING-before-FS-predecessor-stopped", {"task": t.ID, "pred": p.ID, "task_log": lt, "pred_log": lp}))
    # a later forward run equals the forward run of an untouched twin
    try:
        kw = runner.sim_kwargs(opts)
        if opts.get("fwd_omit_flag"):
            kw.pop("perform_auto_task_while_absence_time", None)  # the later forward run leaves the automatic-task keyword out (the backward run had set it)
        a.project.simulate(**dict(kw, absence_time_list=cal))
        b.project.simulate(**kw)
        da, db = jdump(a), jdump(b)
        if da != db:
            d = first_diff(db, da)
            out.append(("C17:forward-run-after-backward-differs-from-twin:%s:%s" % (tag, d[0][0] if d else "?"), {"first_difference(path, twin, after-backward)": d}))
    except Exception as e:
        out.append(("C17:forward-run-after-backward-raised:%s:%s" % (tag, type(e).__name__), {"error": repr(e)}))
    return out, ex.steps, ok


def work(chunk):
    col = engines.Collector()
    for spec, opts in chunk:
        key = hash(repr(spec) + repr(opts))
        got, steps, ok = one_case(spec, opts, None)
        col.evaluations += 1
        col.checks["c17.normal"] += 1
        col.outcomes[("normal", ok, steps)] += 1
        col.states.add(hash((key, "none")))
        for sig, det in got:
            col.violation({"property": "C17", "sig": sig, "kind": "back", "spec": spec, "opts": opts, "fault": None, "detail": det})
        if ok:
            col.nontrivial.add(hash((key, "ok")))
        for pre in (1, 2):
            got, _s, _ok = one_case(spec, opts, None, pre_runs=pre)
            col.evaluations += 1
            col.checks["c17.repeated"] += 1
            col.transitions.add(hash((key, "pre", pre)))
            for sig, det in got:
                col.violation({"property": "C17", "sig": sig + ":after-%d-earlier-backward-run(s)" % pre, "kind": "back", "spec": spec, "opts": opts, "fault": None, "pre_runs": pre, "detail": det})
        for t in range(0, steps + 1):
            for ph in PHASES:
                for ftype in ("exception", "interrupt"):
                    got, st2, ok2 = one_case(spec, opts, (t, ph), ftype)
                    if ok2 is None and not got:
                        continue
                    col.evaluations += 1
                    col.checks["c17.fault"] += 1
                    col.transitions.add(hash((key, t, ph, ftype)))
                    col.nontrivial.add(hash((key, t, ph, ftype)))
                    for sig, det in got:
                        col.violation({"property": "C17", "sig": sig, "kind": "back", "spec": spec, "opts": opts, "fault": [t, ph], "ftype": ftype, "detail": det})
        if len(col.samples) < 2:
            col.samples.append({"spec": spec, "opts": opts, "fault_points": "every (step, phase) of the inner run: steps 0..%d x %s" % (steps, list(PHASES))})
    return col


def items(tier):
    out = []
    dues = ((-1, -1, -1), (3, 5, 2), (4, 4, 4), (2, 2, 5), (6, 3, 3), (0, -1, 0), (-1, 0, -1))
    kinds = ("FS",) if tier == "quick" else ("FS", "SS", "FF")
    flows = list(F.flows(3, kinds, (1, 2)))
    if tier == "quick":
        flows = flows[::2]
    for fl in flows:
        for lay in ("POOL1", "POOL2"):
            for due in (dues if tier == "thorough" else (dues[1], dues[3], dues[5], dues[6])):
                sp = F.with_teams(fl, lay)
                sp = dict(sp, tasks=[dict(t, due=due[i]) for i, t in enumerate(sp["tasks"])])
                for dflag, rev in itertools.product((False, True), repeat=2):
                    for ab in ((), (1,)):
                        out.append((sp, {"rule": "TSLACK", "due": dflag, "rev": rev, "absence": list(ab), "max_time": F.seq_bound(sp) + 12}))
    # one task with an FS successor and an FF/SF/SS successor, declared in both orders; every task with a worker of its own, and pooled
    for k in ("FF", "SF", "SS"):
        for wv in ((2, 1, 1), (1, 2, 2)):
            for links in ([[0, 1, "FS"], [0, 2, k]], [[0, 1, k], [0, 2, "FS"]], [[0, 2, "FS"], [1, 2, k]]):
                fl = {"tasks": [{"name": F.tname(i), "work": float(w)} for i, w in enumerate(wv)], "links": links}
                for lay in ("DED", "POOL2"):
                    sp = F.with_teams(fl, lay)
                    for rev in (True, False):
                        out.append((sp, {"rule": "TSLACK", "due": False, "rev": rev, "absence": [], "max_time": F.seq_bound(sp) + 12}))
    for links in ([[1, 2, "FS"], [0, 2, "FS"]], [[0, 2, "FS"], [0, 1, "FS"]], [[1, 2, "FF"], [0, 2, "FS"], [0, 1, "SS"]]):
        fl = {"tasks": [{"name": F.tname(i), "work": float(w), "due": d} for i, (w, d) in enumerate(((2, 3), (1, 5), (1, 6)))], "links": links}
        sp = F.with_teams(fl, "POOL2")
        for dflag, rev in itertools.product((False, True), repeat=2):
            out.append((sp, {"rule": "TSLACK", "due": dflag, "rev": rev, "absence": [], "max_time": F.seq_bound(sp) + 12}))
    for hold in ("FF", "SF"):
        for wv in ((2, 1, 4, 1), (1, 2, 3, 2)):
            fl = {"tasks": [{"name": F.tname(i), "work": float(w)} for i, w in enumerate(wv)], "links": [[0, 1, "FS"], [1, 2, hold], [0, 3, "SS"]]}
            sp = F.with_teams(fl, "DED")
            for rev in (True, False):
                out.append((sp, {"rule": "TSLACK", "due": False, "rev": rev, "absence": [], "max_time": F.seq_bound(sp) + 12}))
    # two links of different kinds between one pair of tasks (both orders of declaration), with project-wide absence steps early and late
    for sp in F.double_link_specs():
        for rev in (True, False):
            out.append((sp, {"rule": "TSLACK", "due": False, "rev": rev, "absence": [], "max_time": F.seq_bound(sp) + 12}))
        out.append((sp, {"rule": "TSLACK", "due": False, "rev": True, "absence": [0, 1], "max_time": F.seq_bound(sp) + 12}))
    # workplaces of a user subclass that compares docks by name (__eq__ without __hash__: unhashable), other ways of building the object graph
    for sp0 in F.fac_specs("quick"):
        if sp0["label"] in ("fac:2:per-task:two-conveyor:plain:both", "fac:2:shared:one-cap2:plain:both"):
            for rev in (True, False):
                out.append((dict(sp0, eq_workplaces=True), {"rule": "TSLACK", "due": False, "rev": rev, "absence": [], "max_time": F.seq_bound(sp0) + 12}))
    for sp in F.usage_specs():
        if "parent-child:one-cap1" not in sp["label"] and ("bottom-up:fac" not in sp["label"] or sp["label"].endswith("two:both")):
            out.append((sp, {"rule": "TSLACK", "due": False, "rev": True, "absence": [], "max_time": F.seq_bound(sp) + 12}))
    # links declared with extend_input_task_list (a list, a one-shot generator); a user's own automatic task that happens to be called "auto"
    for fl in list(F.flows(3, ("FS",), (1, 2)))[::3]:
        if fl["links"]:
            for api in ("extend", "extend-gen"):
                sp = dict(F.with_teams(fl, "DED"), link_api=api)
                for rev in (True, False):
                    out.append((sp, {"rule": "TSLACK", "due": False, "rev": rev, "absence": [], "max_time": F.seq_bound(sp) + 12}))
    for dues in ((4, 9, 6), (5, 5, 5)):
        fl = {"tasks": [{"name": "T0", "work": 2.0, "due": dues[0]}, {"name": "auto", "work": 2.0, "auto": True, "due": dues[1]}, {"name": "T2", "work": 1.0, "due": dues[2]}], "links": [[0, 1, "FS"], [1, 2, "FS"]]}
        sp = F.with_teams(fl, "POOL2")
        for dflag, rev in itertools.product((False, True), repeat=2):
            out.append((sp, {"rule": "TSLACK", "due": dflag, "rev": rev, "absence": [], "max_time": 20}))
    # two tasks sharing ONE list object as their input list (design -> build_a, build_b -> test)
    for wv in ((2, 2, 3, 1), (1, 3, 2, 2)):
        fl = {"tasks": [{"name": F.tname(i), "work": float(w)} for i, w in enumerate(wv)], "links": [[0, 1, "FS"], [0, 2, "FS"], [1, 3, "FS"], [2, 3, "FS"]]}
        for lay in ("POOL2", "DED"):
            sp = dict(F.with_teams(fl, lay), share_input_list=[[1, 2]])
            for dflag, rev in itertools.product((False, True), repeat=2):
                out.append((sp, {"rule": "TSLACK", "due": dflag, "rev": rev, "absence": [], "max_time": F.seq_bound(sp) + 12}))
    # conveyor links declared on one side only while warnings are errors (a run that has no reason to warn)
    for sp0 in F.fac_specs("quick"):
        if sp0["label"] in ("fac:2:per-task:two-conveyor:plain:both", "fac:2:shared:two-conveyor:two:both"):
            for wiring in ("one-sided", "one-sided-out", None):
                sp = dict(sp0, workplaces=[dict(wp, wire_inputs=wiring) for wp in sp0["workplaces"]])
                for rev in (True, False):
                    out.append((sp, {"rule": "TSLACK", "due": False, "rev": rev, "absence": [], "warn_error": True, "max_time": F.seq_bound(sp) + 12}))
    # a backward run that asked for automatic tasks to go on during absence, followed by a forward run that leaves the keyword out
    for sp in F.auto_component_specs()[:: (2 if tier == "quick" else 1)] + [c08.base_models()[2]]:
        for ab in ([1], [0, 2], [2, 3]):
            for rev in (True, False):
                out.append((sp, {"rule": "TSLACK", "due": False, "rev": rev, "absence": ab, "auto_abs": True, "fwd_omit_flag": True, "max_time": F.seq_bound(sp) + 14}))
    # a tail task that is complete from the start and due long before the other tail (the due-time helper of the late tail runs alone for a long while)
    for d_early, d_late in ((5, 40), (2, 12), (0, 9)):
        fl = {"tasks": [{"name": "T0", "work": 2.0}, {"name": "T1", "work": 2.0, "due": d_late}, {"name": "T2", "work": 1.0, "progress": 1.0, "due": d_early}], "links": [[0, 1, "FS"]]}
        for lay in ("POOL1", "POOL2"):
            sp = F.with_teams(fl, lay)
            for rev in (True, False):
                out.append((sp, {"rule": "TSLACK", "due": True, "rev": rev, "absence": [], "max_time": d_late + 20}))
    for sp, o in list(out)[:: (29 if tier == "quick" else 7)]:
        out.append((sp, dict(o, via_json=True)))
    for sp, o in list(out)[:: (23 if tier == "quick" else 6)]:
        for mt in (1, 2, 3):
            out.append((sp, dict(o, warn_error=True, max_time=mt)))  # the run is cut by max_time while warnings are errors
    for sp in F.scale_specs():
        if sp["label"] in ("scale:layers3x4", "scale:seven-predecessors", "scale:chain10+branches", "scale:nine-successors", "scale:ten-predecessors"):
            out.append((sp, {"rule": "TSLACK", "due": False, "rev": True, "absence": [], "max_time": F.seq_bound(sp) + 20}))
    for sp in F.same_name_task_specs():
        for rev in (True, False):
            out.append((sp, {"rule": "TSLACK", "due": False, "rev": rev, "absence": [], "max_time": 20}))
    for sp in c08.base_models()[3:]:
        for dflag, rev in itertools.product((False, True), repeat=2):
            out.append((sp, {"rule": "TSLACK", "due": dflag, "rev": rev, "absence": [], "max_time": F.seq_bound(sp) + 12}))
    # conveyor links declared on one side only (constructor keyword), and with both sides
    for sp0 in F.fac_specs("quick"):
        if sp0["label"] in ("fac:2:per-task:two-conveyor:plain:both", "fac:2:shared:two-conveyor:two:both"):
            for wiring in ("one-sided", None):
                sp = dict(sp0, workplaces=[dict(wp, wire_inputs=wiring) for wp in sp0["workplaces"]])
                for dflag, rev in itertools.product((False, True), repeat=2):
                    out.append((sp, {"rule": "TSLACK", "due": dflag, "rev": rev, "absence": [], "max_time": F.seq_bound(sp) + 12}))
    # a two-stage line whose workplaces share their input / output list OBJECTS
    names = ["T0", "T1", "T2", "T3"]
    full = {nm: 1.0 for nm in names}
    line = {"tasks": [{"name": "T0", "work": 1.0, "nf": True}, {"name": "T1", "work": 2.0, "nf": True}, {"name": "T2", "work": 1.0, "nf": True}, {"name": "T3", "work": 1.0, "nf": True}],
            "links": [[0, 1, "FS"], [2, 3, "FS"]], "components": [{"name": "C0", "tasks": [0, 1]}, {"name": "C1", "tasks": [2, 3]}],
            "workplaces": [{"name": "WP1", "cap": 1.0, "targets": [0, 2], "facilities": [{"name": "F1", "skills": dict(full)}]}, {"name": "WP2", "cap": 1.0, "targets": [0, 2], "facilities": [{"name": "F2", "skills": dict(full)}]},
                           {"name": "WP3", "cap": 1.0, "targets": [1, 3], "inputs": [0, 1], "facilities": [{"name": "F3", "skills": dict(full)}]}, {"name": "WP4", "cap": 1.0, "targets": [1, 3], "inputs": [0, 1], "facilities": [{"name": "F4", "skills": dict(full)}]}],
            "teams": [{"name": "TM0", "targets": [0, 1, 2, 3], "workers": [{"name": "W%d" % i, "skills": dict(full), "fskills": {"F1": 1.0, "F2": 1.0, "F3": 1.0, "F4": 1.0}} for i in range(2)]}]}
    for alias in (True, False):
        sp = dict(line, alias_conveyor_lists=alias)
        for dflag, rev in itertools.product((False, True), repeat=2):
            out.append((sp, {"rule": "TSLACK", "due": dflag, "rev": rev, "absence": [], "max_time": 20}))
    # four tails, two of them sharing a due time below the maximum
    fl4 = {"tasks": [{"name": F.tname(i), "work": float(w), "due": d} for i, (w, d) in enumerate(((1, 2), (2, 2), (1, 3), (2, 6)))], "links": []}
    for lay in ("POOL2",):
        sp = F.with_teams(fl4, lay)
        for rev in (False, True):
            out.append((sp, {"rule": "TSLACK", "due": True, "rev": rev, "absence": [], "max_time": F.seq_bound(sp) + 12}))
    return out


def run(tier, seed):
    its = items(tier)
    col = engines.fanout(its, work, seed=seed)
    meta = {
        "level": "fault_enumeration",
        "rule": "for every FS (thorough: FS/SS/FF) workflow on 3 tasks x works {1,2} x {POOL1,POOL2} x due-time vectors x considering_due_time_of_tail_tasks x reverse_log_information x absence {[],[1]}, "
        "tasks with an FS successor next to an FF/SF/SS successor (both declaration orders), same-named tasks, and facility/conveyor/nested models: backward_simulate is run once normally and once for EVERY (step, phase) of its inner run with an abort raised from the step observer at that point - once an Exception subclass, once a BaseException that is not an Exception (like KeyboardInterrupt); "
        "afterwards the identity and order of every input/output task list, every workplace input/output list and the task list are compared with before, a forward simulate is compared with an untouched "
        "twin, and for successful runs the FS clause is checked on the logs in forward-time reading together with log alignment; non-trivial = distinct (model, options, fault point)",
        "bounds": {"models_x_options": len(its), "fault_points": "all (step, phase) of the inner run"},
        "assumptions": ["the exception is raised from the guarded step observer inside simulate()"],
    }
    if col.checks["c17.fault"] == 0:
        meta["vacuous"] = "no fault injected"
    return col, meta


def replay(v):
    pre = int(v.get("pre_runs") or 0)
    got, steps, ok = one_case(v["spec"], v["opts"], tuple(v["fault"]) if v.get("fault") else None, v.get("ftype") or "exception", pre_runs=pre)
    suffix = (":after-%d-earlier-backward-run(s)" % pre) if pre else ""
    return [{"sig": s + suffix, "detail": d} for s, d in got]
