"""C03 - allocation exclusive and two-way consistent."""
from .. import families as F, monitors as M, stepcheck

MONS = [M.mon_c03]


def items(tier):
    out = []
    if tier == "quick":
        flows = list(F.flows(3, ("FS", "SS"), (1, 2))) + [fl for fl in F.flows(3, ("FF", "SF"), (1, 2, 3)) if fl["links"]][::3]
        lays = ("POOL1", "POOL2", "SOLO", "DED")
        rules = ("TSLACK", "FIFO")
        fac = list(F.fac_specs("quick"))
    else:
        flows = list(F.flows(3, ("FS", "SS", "FF"), (1, 2)))
        lays = ("POOL1", "POOL2", "MIX", "SOLO")
        rules = ("TSLACK", "SPT", "LPT", "FIFO")
        fac = list(F.fac_specs("thorough"))
    par4 = [{"tasks": [{"name": F.tname(i), "work": float(w)} for i, w in enumerate(wv)], "links": []} for wv in ((1, 1, 2, 2), (2, 1, 2, 1))]
    for fl in flows + par4:
        for lay in lays:
            sp = F.with_teams(fl, lay)
            for rule in rules:
                out.append((sp, {"rule": rule, "max_time": F.seq_bound(sp) + 8}))
        # fixed worker-ID lists (incl. empty list)
        for fx in ([], ["W0"], ["W1"], ["W0", "W1"]):
            sp = F.with_teams(fl, "POOL2")
            sp = dict(sp, tasks=[dict(t) for t in sp["tasks"]])
            sp["tasks"][0]["fixw"] = fx
            out.append((sp, {"rule": "TSLACK", "max_time": F.seq_bound(sp) + 8}))
    for sp in fac:
        out.append((sp, {"rule": "TSLACK", "max_time": F.seq_bound(sp) + 8}))
    for sp in F.id_namespace_specs() + F.sectioned_workplace_specs() + F.shared_pinned_machine_specs():
        for rule in ("TSLACK", "SPT", "LPT"):
            out.append((sp, {"rule": rule, "max_time": F.seq_bound(sp) + 8}))
    return out


def run(tier, seed):
    H, D = (4, 1) if tier == "quick" else (5, 2)
    its = items(tier)
    col = stepcheck.explore(its, MONS, H, D, seed=seed)
    # the same invariants on runs continued after a stop at step k (state and logs kept) and on second runs of one object
    ri = []
    for sp, o in its[:: (5 if tier == "quick" else 2)]:
        for k in (1, 2):
            ri.append((sp, dict(o, resume_from=k)))
        ri.append((sp, dict(o, presim=1)))
        ri.append((sp, dict(o, backward=True, rev=True)))
        # the very first call on a never-simulated model made with state initialisation off (e.g. to keep hand-set values)
        ri.append((sp, dict(o, flags=[False, True])))
        ri.append((sp, dict(o, flags=[False, False])))
    ri += stepcheck.restarted_items(its[:: (9 if tier == "quick" else 4)], ks=(1, 2), flags=(True, False))
    for sp, o in its[:: (7 if tier == "quick" else 3)]:
        for k in (1, 2, 3):
            ri.append((sp, dict(o, presim=1, presim_cut=k + 1, presim_absence=[k])))  # the earlier run ended one step after a project absence step
            wn = F.worker_names(sp)[:1]
            if wn:
                ri.append((sp, dict(o, presim=1, presim_cut=k + 1, res_absence={wn[0]: [k]})))  # ... after a personal absence step of the first worker
    ri += stepcheck.resumed_edit_items(("worker-absence-append-3",), ks=(1, 2, 3))
    ri += stepcheck.resumed_edit_items(("move-worker", "move-facility-in", "add-component"), ks=(1, 2))  # people and machines transferred, a component added at a stop while work is in progress
    # a checkpoint written at step k and read back - into a new project, and into the same project object - before the run goes on
    dup = F.with_teams({"tasks": [{"name": "T0", "work": 3.0}, {"name": "T1", "work": 2.0}], "links": [[0, 1, "FS"]]}, "POOL1")
    dup["teams"][0]["targets"] = [0, 0, 1]  # the first task was linked to the team twice
    for sp, o in its[:: (11 if tier == "quick" else 4)] + [(dup, {"rule": "TSLACK", "max_time": 14})]:
        for k in (1, 2):
            for how in (True, "same"):
                ri.append((sp, dict(o, resume_from=k, resume_via_json=how)))
    # runs aborted in the middle of an allocation (the n-th eligibility question of step k raises) and continued with state and logs kept
    for sp, o in its[:: (7 if tier == "quick" else 3)] + [(sp, {"rule": "TSLACK", "max_time": 20}) for sp in F.rule_sensitive_specs()[:4]]:
        for k in (0, 1, 2):
            for n in (1, 2, 3, 4, 6):
                ri.append((sp, dict(o, alloc_fault=[k, n])))
    # a sub-project task that is worked by the parent's own people (auto_task=False), stopped while it holds them, checkpointed and continued
    wsub = {"tasks": [{"name": "T0", "work": 1.0}, {"name": "S1", "work": 4.0, "sub": {"auto": False}}, {"name": "T2", "work": 1.0}], "links": [[0, 1, "FS"], [1, 2, "FS"]],
            "teams": [{"name": "TM0", "targets": [0, 1, 2], "workers": [{"name": "W0", "skills": {"T0": 1.0, "S1": 1.0, "T2": 1.0}, "cost": 1.0}, {"name": "W1", "skills": {"S1": 1.0}, "cost": 1.0}]}]}
    for k in (1, 2, 3):
        for how in (True, "same", None):
            ri.append((wsub, dict({"rule": "TSLACK", "max_time": 14, "resume_from": k}, **({"resume_via_json": how} if how else {}))))
    col.merge(stepcheck.explore(ri, MONS, 0, 0, seed=seed))
    lit = [(sp, {"rule": "TSLACK", "max_time": 20}) for sp in F.unsorted_absence_specs() + F.same_name_task_specs() + F.double_link_specs() + F.three_level_product_specs() + F.nested_running_specs() + F.nested_order_specs()]
    col.merge(stepcheck.explore(lit, MONS, 0, 0, seed=seed))
    col.merge(stepcheck.explore(stepcheck.edited_items(), MONS, 0, 0, seed=seed))  # runs after an earlier run and an in-place model edit
    col.merge(stepcheck.explore(F.scale_items(("TSLACK", "SPT")), MONS, 0, 0, seed=seed))  # medium-sized models (10-14 tasks / workers / machines), long absence lists
    col.merge(stepcheck.explore(F.extra_items(("TSLACK", "SPT"), calendars=True), MONS, 0, 0, seed=seed))  # other ways of building the object graph; continuations under a revised calendar
    meta = {
        "level": "model_checking",
        "rule": "3-task FS/SS(/FF) workflows and 4 parallel tasks x worker layouts (one/two pooled, mixed, solo, fixed-ID lists incl. empty) x task rules "
        "x the FAC facility family (plus slices run as a first call with state initialisation off, as restarts with the states reset and the logs kept, as continued runs with an absence list edited at the stop, as second runs, as backward runs), each explored over all absence answers (project, each worker, each facility) up to horizon H with <= D non-default answers "
        "(absence of a resource that is holding a task is the interesting deviation); non-trivial = distinct allocation states with more claimant tasks than workers",
        "bounds": {"H": H, "D": D, "base_models": len(its)},
        "assumptions": ["deterministic skills (sd 0)"],
    }
    if not col.nontrivial:
        meta["vacuous"] = "no contention state observed"
    return col, meta


def replay(v):
    return stepcheck.replay(v, MONS)
