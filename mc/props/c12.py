"""C12 - PERT/CPM equals an independent critical-path computation at every update."""
import collections
import itertools

from .. import engines, families as F, monitors as M, oracles, runner, spec as S, stepcheck
from ..info import Info

TOL = 1e-9


def build_wf(n, links, rem, rev=False):
    sp = {"tasks": [{"name": F.tname(i), "work": float(rem[i])} for i in range(n)], "links": [list(l) for l in links]}
    if rev is True:
        sp["hash"] = list(range(n))[::-1]
    if rev == "auto-rate":
        for i, t_ in enumerate(sp["tasks"]):
            if i % 2 == 1:
                t_["auto"], t_["unit"] = True, 0.5
    if rev == "prefinished" and n > 1:
        sp["tasks"][1]["progress"] = 1.0  # a non-head task that is FINISHED from the start
    if rev == "order":
        sp["order"] = list(range(n))[::-1]  # task_list not in precedence order  # the sets inside the PERT passes are then iterated in the opposite order
    if rev == "extend-gen":
        sp["link_api"] = "extend-gen"
    if rev == "caller-list":
        sp["caller_list_append"] = True  # the caller keeps the list he gave to BaseWorkflow and appends a later phase's task to his own list afterwards
    if rev == "dup-links":
        sp["links"] = sp["links"] + [list(l) for l in sp["links"]]  # every link declared twice (accepted by the library; the network is the same)
    if rev == "sub":
        for t_ in sp["tasks"][:2]:
            t_["sub"] = {}  # sub-project tasks (not configured from a file: plain automatic tasks of their own class)
    m = S.build(sp)
    if rev == "prefinished" and n > 1:
        pass  # remaining work of the pre-finished task is 0; workflow.initialize() puts it into FINISHED
    if rev == "samename":
        for x in m.tasks:  # different tasks may carry the same name (IDs stay distinct)
            x.name = "step"
    return m


def compare(tasks, wf, n, links, t, tag):
    rem = [float(x.remaining_work_amount) for x in tasks]
    est, eft, lst, lft, cpl = oracles.cpm(n, [(i, j) for i, j, _ in links], rem, t)
    bad = []
    for i, x in enumerate(tasks):
        for nm, got, want in (("est", x.est, est[i]), ("eft", x.eft, eft[i]), ("lst", x.lst, lst[i]), ("lft", x.lft, lft[i])):
            if abs(got - want) > TOL:
                bad.append((x.ID, nm, got, want))
    if abs(wf.critical_path_length - cpl) > TOL:
        bad.append(("workflow", "critical_path_length", wf.critical_path_length, cpl))
    slack = [x.lst - x.est for x in tasks]
    if any(s < -TOL for s in slack):
        bad.append(("slack", "negative", min(slack), 0.0))
    if n and not any(abs(s) <= TOL for s in slack):
        bad.append(("slack", "no-zero-slack-task", min(slack), 0.0))
    return bad


def sig_of(bad):
    kinds = sorted(set(b[1] for b in bad))
    if set(kinds) <= {"lst", "lft", "negative", "no-zero-slack-task"}:
        return "C12:backward-pass-wrong(lst/lft)"
    return "C12:pert-values-wrong(%s)" % ",".join(kinds)


class _M(object):
    pass


def _late_append(n, links, rem0):
    """a workflow grown task by task: each task is linked to its predecessors first and handed to the workflow afterwards"""
    from pDESy.model.base_task import BaseTask
    from pDESy.model.base_workflow import BaseWorkflow
    from pDESy.model.base_project import BaseProject

    tasks = [BaseTask(F.tname(i), ID=F.tname(i), default_work_amount=float(rem0[i])) for i in range(n)]
    wf = BaseWorkflow([])
    for j in range(n):
        for i, jj, _k in links:
            if jj == j:
                tasks[j].append_input_task(tasks[i])
        wf.append_child_task(tasks[j])
    m = _M()
    m.tasks = tasks
    m.project = BaseProject(workflow=wf)
    return m


def _loaded(m):
    """the project written to JSON and read into a new one: (model-like object with the loaded tasks in the same order)"""
    import os
    import tempfile
    from pDESy.model.base_project import BaseProject

    fd, path = tempfile.mkstemp(prefix="verif-c12-", suffix=".json")
    os.close(fd)
    try:
        m.project.write_simple_json(path)
        p2 = BaseProject()
        p2.read_simple_json(path)
    finally:
        os.unlink(path)
    m2 = _M()
    byid = {x.ID: x for x in p2.workflow.task_list}
    m2.tasks = [byid[x.ID] for x in m.tasks]
    m2.project = p2
    return m2


def apply_history(n, links, rem0, hist, rev=False):
    """Replay a history on fresh real objects; returns (model, t, bad-list after the last update)."""
    if rev == "late-append":
        # no initialize(): the constructor set the remaining work, update_PERT_data is called directly
        m = _late_append(n, links, rem0)
        wf = m.project.workflow
        wf.update_PERT_data(0)
    elif rev == "late-link":
        # built without its last link, PERT computed, then the link is added with append_input_task and everything is initialised again
        m = build_wf(n, links[:-1], rem0, False)
        wf = m.project.workflow
        wf.initialize()
        wf.update_PERT_data(0)
        i, j = links[-1][0], links[-1][1]
        m.tasks[j].append_input_task(m.tasks[i])
        wf.initialize()
    else:
        m = build_wf(n, links, rem0, rev if rev not in ("loaded", "loaded-id0", "loaded-sub", "loaded-order") else ("sub" if rev == "loaded-sub" else ("order" if rev == "loaded-order" else False)))
        if rev in ("loaded-sub", "loaded-order"):
            rev = "loaded"  # (loaded-order: task_list lists successors before their predecessors, and the copy that went through JSON is examined)
        if rev == "loaded-id0":
            m.tasks[min(1, n - 1)].ID = 0  # an explicit ID that happens to be falsy
            rev = "loaded"
        wf = m.project.workflow
        wf.initialize()
    if rev == "reinit-kept-log":
        # the model carries a log from earlier activity; its state is initialised again by hand with the logs kept, and PERT is read before any run
        for x in m.tasks:
            x.state_record_list.extend([x.state, x.state])
            x.remaining_work_amount_record_list.extend([x.remaining_work_amount, x.remaining_work_amount])
        wf.initialize(state_info=True, log_info=False)
    t = 0
    if rev == "loaded" and not hist:
        m = _loaded(m)
        wf = m.project.workflow
        wf.update_PERT_data(0)
    bad = compare(m.tasks, wf, n, links, t, "init") if not hist else []
    for k, op in enumerate(hist):
        if op[0] == "p":
            x = m.tasks[op[1]]
            x.remaining_work_amount = max(0.0, x.remaining_work_amount - 1.0)
        elif op[0] == "t":
            t += 1
        if rev == "loaded" and k == len(hist) - 1:
            # the last update is made on a copy that went through JSON (no initialize() in between)
            m = _loaded(m)
            wf = m.project.workflow
        wf.update_PERT_data(t)
        if k == len(hist) - 1:
            bad = compare(m.tasks, wf, n, links, t, "after")
    return m, t, bad


def canon_wf(m, t):
    return tuple((round(x.remaining_work_amount, 9), round(x.est - t, 9), round(x.eft - t, 9), round(x.lst - t, 9), round(x.lft - t, 9)) for x in m.tasks) + (
        round(m.project.workflow.critical_path_length - t, 9),)


def work_hist(chunk):
    col = engines.Collector()
    for n, links, rem0, depth, rev in chunk:
        ops = [("p", i) for i in range(n)] + [("t",)]
        seen = set()
        frontier = collections.deque([()])
        key = hash((n, repr(links), rem0, rev))
        while frontier:
            hist = frontier.popleft()
            try:
                m, t, bad = apply_history(n, links, rem0, hist, rev)
            except Exception as e:  # the library raised (or did not return: the harness watchdog raises TimeoutError inside the call)
                col.evaluations += 1
                col.violation({"property": "C12", "sig": "C12:pert-raised:%s" % type(e).__name__, "kind": "hist", "n": n, "links": links, "rem0": list(rem0), "hist": [list(o) for o in hist], "rev": rev,
                               "detail": {"error": repr(e)[:300]}})
                continue
            col.evaluations += 1
            col.checks["c12.compare"] += 1
            c = canon_wf(m, t)
            col.transitions.add(hash((key, hist)))
            if bad:
                col.violation({"property": "C12", "sig": sig_of(bad), "kind": "hist", "n": n, "links": links, "rem0": list(rem0), "hist": [list(o) for o in hist], "rev": rev,
                               "detail": {"t": t, "mismatches": bad[:8]}})
            if c in seen:
                continue
            seen.add(c)
            col.states.add(hash((key, c)))
            if links and any(r > 0 for r in rem0):
                col.nontrivial.add(hash((key, c)))
            if len(hist) < depth:
                for op in ops:
                    if op[0] == "p" and m.tasks[op[1]].remaining_work_amount <= 0:
                        continue
                    frontier.append(hist + (op,))
        col.outcomes[(n, len(links))] += 1
        if len(col.samples) < 2 and links:
            col.samples.append({"n": n, "links": links, "rem0": list(rem0), "example_history": [["p", 0], ["t"]]})
    return col


def mon_c12(ex, info, col):
    """At every 'updated' phase of an FS-only simulation compare the live PERT values with the oracle."""
    out = []
    names = info.tnames
    fs = [(i, j) for i, j, k in info.spec.get("links", [])]
    for t, ph, working, sn in ex.trace:
        if ph != "updated":
            continue
        rem = [sn["tasks"][nm][1] for nm in names]
        est, eft, lst, lft, cpl = oracles.cpm(len(names), fs, rem, t)
        bad = []
        for i, nm in enumerate(names):
            tv = sn["tasks"][nm]
            for k, (got, want) in enumerate(((tv[4], est[i]), (tv[5], eft[i]), (tv[6], lst[i]), (tv[7], lft[i]))):
                if abs(got - want) > TOL:
                    bad.append((nm, ("est", "eft", "lst", "lft")[k], got, want))
        if abs(sn["cpl"] - cpl) > TOL:
            bad.append(("workflow", "critical_path_length", sn["cpl"], cpl))
        col.checks["c12.sim-step"] += 1
        if fs:
            col.nontrivial.add(hash((info.key, tuple(rem))))
        if bad:
            out.append(M.V("C12", sig_of(bad) + "@simulate", ex, {"t": t, "mismatches": bad[:8]}))
    return out


def work_after_backward(chunk):
    """a backward run (with helper tasks for due times) must leave a workflow on which the next PERT update is right"""
    col = engines.Collector()
    for spec, due_flag in chunk:
        m = S.build(spec)
        names = [t.ID for t in m.tasks]
        try:
            m.project.backward_simulate(max_time=40, considering_due_time_of_tail_tasks=due_flag, absence_time_list=[])
            m.project.workflow.initialize()
        except Exception as e:
            col.violation({"property": "C12", "sig": "C12:update-after-backward-run-raised:%s" % type(e).__name__, "kind": "afterback", "spec": spec, "due": due_flag, "detail": {"error": repr(e)}})
            continue
        n = len(m.tasks)
        links = [tuple(l) for l in spec["links"]]
        bad = compare(m.tasks, m.project.workflow, n, links, 0, "after-backward")
        col.evaluations += 1
        col.checks["c12.after-backward"] += 1
        key = hash((repr(spec), due_flag))
        col.states.add(key)
        col.transitions.add(key)
        col.nontrivial.add(key)
        if bad:
            col.violation({"property": "C12", "sig": sig_of(bad) + "@after-backward-run", "kind": "afterback", "spec": spec, "due": due_flag, "detail": {"mismatches": bad[:8]}})
    return col


def work_deep(chunk):
    """long and wide networks (depth beyond the interpreter's recursion limit, many stand-alone tasks): initialize, tick, progress, update"""
    col = engines.Collector()
    for n, shape, order in chunk:
        if shape == "chain":
            links = [[i, i + 1, "FS"] for i in range(n - 1)]
        elif shape == "chain+loose":
            k = n - 3  # a chain through all but three stand-alone tasks
            links = [[i, i + 1, "FS"] for i in range(k - 1)]
        else:  # comb: a backbone with a one-task tooth at every node
            h = n // 2
            links = [[i, i + 1, "FS"] for i in range(h - 1)] + [[i, h + i, "FS"] for i in range(h)]
        rem = [float(1 + (i % 3)) for i in range(n)]
        sp = {"tasks": [{"name": F.tname(i), "work": rem[i]} for i in range(n)], "links": links}
        if order == "reversed":
            sp["order"] = list(range(n))[::-1]
        key = hash((n, shape, order))
        try:
            m = S.build(sp)
            wf = m.project.workflow
            wf.initialize()
            tasks = m.tasks
            bad = compare(tasks, wf, n, links, 0, "deep-init")
            if not bad:
                tasks[0].remaining_work_amount = 0.0
                tasks[n // 2].remaining_work_amount += 1.0
                wf.update_PERT_data(3)
                bad = compare(tasks, wf, n, links, 3, "deep-update")
        except Exception as e:
            col.violation({"property": "C12", "sig": "C12:pert-raised:%s" % type(e).__name__, "kind": "deep", "n": n, "shape": shape, "order": order, "detail": {"error": repr(e)[:300]}})
            col.evaluations += 1
            continue
        col.evaluations += 2
        col.checks["c12.deep"] += 1
        col.states.add(key)
        col.transitions.add(key)
        col.nontrivial.add(key)
        if bad:
            col.violation({"property": "C12", "sig": sig_of(bad) + "@large-network", "kind": "deep", "n": n, "shape": shape, "order": order, "detail": {"mismatches": bad[:6]}})
    return col


def deep_items(tier):
    sizes = (1100,) if tier == "quick" else (1100, 2300)
    out = [(n, "chain", o) for n in sizes for o in ("natural", "reversed")]
    out += [(n, "comb", "natural") for n in sizes]
    out += [(n, sh, "natural") for n in (5, 6, 7, 9, 12) for sh in ("chain+loose",)]
    return out


def hist_items(tier):
    out = []
    if tier == "quick":
        for n in (1, 2, 3):
            for links in F.fs_dags(n):
                for rem0 in itertools.product((0, 1, 2), repeat=n):
                    out.append((n, links, rem0, 4, False))
                    if n == 3 and links:
                        out.append((n, links, rem0, 2, True))
                        out.append((n, links, rem0, 1, "samename"))
                        out.append((n, links, rem0, 2, "order"))
                        out.append((n, links, rem0, 1, "auto-rate"))
                        out.append((n, links, rem0, 2, "prefinished"))
                        out.append((n, links, rem0, 1, "loaded"))
                        out.append((n, links, rem0, 1, "extend-gen"))
                        out.append((n, links, rem0, 1, "loaded-id0"))
                        out.append((n, links, rem0, 1, "loaded-sub"))
                        out.append((n, links, rem0, 1, "dup-links"))
                        out.append((n, links, rem0, 1, "caller-list"))
                        out.append((n, links, rem0, 1, "loaded-order"))
                        out.append((n, links, rem0, 1, "reinit-kept-log"))
                        out.append((n, links, rem0, 1, "late-append"))
                        for rot in range(len(links)):
                            out.append((n, links[rot:] + links[:rot], rem0, 1, "late-link"))  # every link takes its turn as the one added late
        for links in F.fs_dags(4):
            for rem0 in itertools.product((0, 1, 2), repeat=4):
                out.append((4, links, rem0, 3 if sum(rem0) % 2 == 0 else 1, False))
                out.append((4, links, rem0, 1, True))
                if sum(rem0) % 3 == 0:
                    out.append((4, links, rem0, 1, "order"))
                    out.append((4, links, rem0, 1, "dup-links"))
                if links and sum(rem0) % 4 == 1:
                    for rot in range(len(links)):
                        out.append((4, links[rot:] + links[:rot], rem0, 0, "late-link"))
    else:
        for n in (1, 2, 3, 4):
            for links in F.fs_dags(n):
                for rem0 in itertools.product((0, 1, 2), repeat=n):
                    out.append((n, links, rem0, 5 if n < 4 else 4, False))
                    if n >= 3 and links:
                        out.append((n, links, rem0, 3, True))
                        out.append((n, links, rem0, 2, "loaded"))
                        out.append((n, links, rem0, 2, "late-append"))
                        out.append((n, links, rem0, 2, "loaded-sub"))
                        out.append((n, links, rem0, 2, "dup-links"))
                        out.append((n, links, rem0, 2, "caller-list"))
                        out.append((n, links, rem0, 2, "loaded-order"))
                        out.append((n, links, rem0, 2, "reinit-kept-log"))
                        for rot in range(len(links)):
                            out.append((n, links[rot:] + links[:rot], rem0, 2, "late-link"))
        for links in F.fs_dags(5):
            for rem0 in itertools.product((0, 1), repeat=5):
                out.append((5, links, rem0, 3, False))
                out.append((5, links, rem0, 1, True))
        # a few 6-node shapes in which a merge node is reached over paths with different numbers of edges
        for extra in ([[0, 3, "FS"], [0, 1, "FS"], [1, 2, "FS"], [2, 3, "FS"], [3, 4, "FS"], [4, 5, "FS"]], [[0, 2, "FS"], [0, 1, "FS"], [1, 2, "FS"], [2, 3, "FS"], [2, 4, "FS"], [4, 5, "FS"]]):
            for rem0 in itertools.product((1, 2), repeat=6):
                for rev in (False, True):
                    out.append((6, extra, rem0, 2, rev))
    return out


def sim_items(tier):
    out = []
    # 12 tasks in three layers (FS only) and a chain of ten: larger networks under simulation
    tasks = [{"name": F.tname(i), "work": float(1 + (i * 3) % 4)} for i in range(12)]
    links = [[layer * 4 + j, (layer + 1) * 4 + (j + d) % 4, "FS"] for layer in range(2) for j in range(4) for d in (0, 1)]
    out.append((F.with_teams({"tasks": tasks, "links": links}, "POOL3"), {"rule": "TSLACK", "max_time": 60, "phases": ("updated",)}))
    out.append((F.with_teams({"tasks": [{"name": F.tname(i), "work": float(1 + i % 3)} for i in range(10)], "links": [[i, i + 1, "FS"] for i in range(9)]}, "POOL2"),
                {"rule": "TSLACK", "max_time": 60, "phases": ("updated",)}))
    # a chain of thirty tasks of eight work units each (one worker: 240 steps, 240 updates of a 30-deep network), with and without a long calendar
    ch = F.with_teams({"tasks": [{"name": F.tname(i), "work": 8.0} for i in range(30)], "links": [[i, i + 1, "FS"] for i in range(29)]}, "POOL1")
    out.append((ch, {"rule": "TSLACK", "max_time": 300, "phases": ("updated",)}))
    out.append((ch, {"rule": "TSLACK", "max_time": 340, "absence": [d for w in range(20) for d in (7 * w + 5, 7 * w + 6)], "phases": ("updated",)}))
    # automatic tasks that go on during project-wide absence steps (flag set): the update after such a step sees their new remaining work
    for fl in list(F.flows(3, ("FS",), (2, 3))):
        for ai in (0, 1, 2):
            sp = F.with_teams(fl, "POOL2")
            sp = dict(sp, tasks=[dict(t_, auto=(i == ai)) for i, t_ in enumerate(sp["tasks"])])
            for ab in ([1], [1, 2], [0, 3], [2, 3, 4]):
                for aa in (True, False):
                    out.append((sp, {"rule": "TSLACK", "max_time": F.seq_bound(sp) + 12, "absence": ab, "auto_abs": aa, "phases": ("updated",)}))
    for fl in F.flows(3, ("FS",), (1, 2) if tier == "quick" else (1, 2, 3)):
        for lay in ("POOL1", "POOL2"):
            sp = F.with_teams(fl, lay)
            for rule in ("TSLACK", "SPT"):
                out.append((sp, {"rule": rule, "max_time": F.seq_bound(sp) + 8, "phases": ("updated",)}))
    return out


def run(tier, seed):
    hi = hist_items(tier)
    col = engines.fanout(hi, work_hist, seed=seed)
    ab = []
    for fl in F.flows(3, ("FS",), (1, 2)):
        for due in ((3, 5, 2), (4, 4, 9)):
            sp = F.with_teams(fl, "POOL2")
            sp = dict(sp, tasks=[dict(t, due=due[i]) for i, t in enumerate(sp["tasks"])])
            for flag in (False, True):
                ab.append((sp, flag))
    col.merge(engines.fanout(ab, work_after_backward, seed=seed))
    col.merge(engines.fanout(deep_items(tier), work_deep, seed=seed, chunks_per_proc=1))
    si = sim_items(tier)
    H, D = (4, 1) if tier == "quick" else (5, 2)
    col.merge(stepcheck.explore(si, [mon_c12], H, D, who_fn=lambda sp: stepcheck.default_who(sp, facilities=False), seed=seed))
    col.merge(stepcheck.explore(stepcheck.restarted_items(si[:: (5 if tier == "quick" else 2)], ks=(1, 2, 3)), [mon_c12], 0, 0, seed=seed))  # states reset, logs and clock kept
    # blocks of consecutive project-wide absence steps (the clock goes on, so every update moves all values)
    blocks = [(sp, dict(o, absence=list(ab))) for sp, o in si[:: (3 if tier == "quick" else 1)] for ab in ((1, 2), (0, 1, 2), (2, 3, 4), (1, 2, 4, 5))]
    col.merge(stepcheck.explore(blocks, [mon_c12], 0, 0, seed=seed))
    meta = {
        "level": "model_checking",
        "rule": "breadth-first search over histories of progress(i) (remaining -= 1) and tick (t += 1), each followed by the real update_PERT_data(t), from a freshly "
        "initialized real workflow, for every FS-only DAG on <=4 (thorough 5) nodes x every initial remaining vector over {0,1,2}, with the tasks' hash ranks in list order and (shallower) in reversed order so that the sets inside the passes are iterated both ways; states de-duplicated on (remaining, stored "
        "est/eft/lst/lft relative to t); after every update all values are compared with a longest-path CPM; plus the 'updated' phase of every step of FS-only simulations "
        "explored over absence answers; plus chains and combs of 1100 (thorough 2300) tasks, in natural and reversed list order, and chains next to three stand-alone tasks; the last update made on a copy that went through JSON, and workflows grown task by task (update_PERT_data called directly); non-trivial = distinct states of DAGs with at least one link and positive work",
        "bounds": {"history_depth": "4 (n<=3), 3 (n=4)" if tier == "quick" else "5 (n<=3), 4 (n=4), 3 (n=5)", "dag_instances": len(hi), "sim_models": len(si), "H": H, "D": D},
        "assumptions": ["finish-to-start networks only (the statement's scope)"],
    }
    return col, meta


def replay(v):
    if v.get("kind") == "hist" and v["sig"].startswith("C12:pert-raised"):
        try:
            apply_history(v["n"], [tuple(l) for l in v["links"]], tuple(v["rem0"]), tuple(tuple(o) for o in v["hist"]), v.get("rev"))
            return []
        except Exception as e:
            return [{"sig": "C12:pert-raised:%s" % type(e).__name__, "detail": {"error": repr(e)[:300]}}]
    if v.get("kind") == "hist":
        m, t, bad = apply_history(v["n"], [tuple(l) for l in v["links"]], tuple(v["rem0"]), tuple(tuple(o) for o in v["hist"]), v.get("rev"))
        return [{"sig": sig_of(bad), "detail": {"t": t, "mismatches": bad[:8]}}] if bad else []
    if v.get("kind") == "deep":
        return work_deep([(v["n"], v["shape"], v["order"])]).violations
    if v.get("kind") == "afterback":
        return work_after_backward([(v["spec"], v["due"])]).violations
    return stepcheck.replay(v, [mon_c12])
