"""Glue for the step-invariant properties: family x environment exploration x monitors."""
from . import engines, runner
from .info import Info


def default_who(spec, project=True, workers=True, facilities=True):
    from . import families

    who = []
    if project:
        who.append("P")
    if workers:
        who += families.worker_names(spec)
    if facilities:
        who += families.facility_names(spec)
    return who


def make_worker(monitors, H, D, who_fn, merge=True, max_group=1, outcome_fn=None, sample_every=0):
    def work(chunk):
        col = engines.Collector()
        for spec, base_opts in chunk:
            info = Info(spec)
            menu = engines.make_menu(who_fn(spec), max_group=max_group)

            def on_exec(ex, prefix, info=info):
                if ex.error is not None:
                    col.aborted[ex.error] += 1
                for mon in monitors:
                    try:
                        for v in mon(ex, info, col):
                            col.violation(v)
                    except Exception as e:  # monitor crashed on a half-built trace of an aborted run
                        if ex.error is None:
                            raise
                        col.extra["monitor-skipped-on-aborted-run"] += 1
                if outcome_fn is not None:
                    col.outcomes[outcome_fn(ex)] += 1
                else:
                    col.outcomes[(int(ex.project.status) if ex.m else None, ex.project.time if ex.m else None, ex.error)] += 1
                if len(col.samples) < 2 and prefix and ex.error is None:
                    col.samples.append({"spec": ex.spec, "opts": {k: v for k, v in ex.opts.items() if k not in ("phases", "want_canon")},
                                        "result": {"time": ex.project.time, "status": int(ex.project.status)}})

            engines.explore_env(spec, base_opts, menu, H, D, on_exec, col, merge=merge)
        return col

    return work


def explore(items, monitors, H, D, who_fn=default_who, seed=0, merge=True, max_group=1, outcome_fn=None):
    return engines.fanout(items, make_worker(monitors, H, D, who_fn, merge=merge, max_group=max_group, outcome_fn=outcome_fn), seed=seed)


def edited_items(base_opts=None, names=None):
    """items whose observed run follows an earlier run and an in-place edit of the model (oracle facts come from the edited spec)"""
    from . import edits

    out = []
    for before, after, name in edits.edit_cases():
        if names and name not in names:
            continue
        o = dict(base_opts or {"rule": "TSLACK", "max_time": 30})
        o.update(build_from=before, edit=name, presim=1)
        out.append((after, o))
    return out


def resumed_edit_items(names, ks=(1, 2, 3), base_opts=None):
    """items whose observed run continues (state and logs kept) a run stopped at step k, with an in-place edit of the model made at the stop;
    only for edits whose effect begins at or after step k (the oracle reads the edited spec for the whole run)"""
    from . import edits

    out = []
    for before, after, name in edits.edit_cases():
        if name not in names:
            continue
        for k in ks:
            o = dict(base_opts or {"rule": "TSLACK", "max_time": 30})
            o.update(build_from=before, edit=name, resume_from=k)
            out.append((after, o))
    return out


def restarted_items(items, ks=(1, 2, 3), flags=(True, False)):
    """items whose observed run starts again (states reset, logs kept by default) on a project that was stopped at step k"""
    out = []
    for sp, o in items:
        for k in ks:
            out.append((sp, dict(o, resume_from=k, restart_flags=list(flags), max_time=o.get("max_time", 30) + k)))
    return out


def replay(v, monitors):
    """Re-run the single execution of a violation record without the explorer."""
    ex = runner.run(v["spec"], dict(v["opts"]))
    info = Info(v["spec"])
    col = engines.Collector()
    out = []
    for mon in monitors:
        try:
            out.extend(mon(ex, info, col))
        except Exception:
            if ex.error is None:
                raise
    return out
