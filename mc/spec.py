"""Model specs (plain JSON-able dicts) -> fresh real pDESy objects; complete dumps; live snapshots.

A spec is
  {"tasks": [{"name", "work", "progress", "auto", "nf"(need_facility), "fixw", "fixf", "due",
              "unit"(work_amount_progress_of_unit_step_time), "wrule", "frule", "wprule",
              "sub": {...} (only for sub-project tasks)}...],
   "links": [[i, j, "FS"|"SS"|"FF"|"SF"], ...]          i is an input (predecessor) of j
   "teams": [{"name", "targets": [task idx], "workers": [{"name", "skills": {task name: x},
              "fskills": {facility name: x}, "cost", "solo", "absence": [...], "mainwp"}]}],
   "workplaces": [{"name", "cap", "targets": [task idx], "inputs": [wp idx],
                   "facilities": [{"name", "skills", "cost", "solo", "absence"}]}],
   "components": [{"name", "space", "children": [comp idx], "tasks": [task idx]}],
   "value_eq": workers / facilities are user subclasses with value equality; "build_style": "bottom-up" creates the project first with empty containers of user
   subclasses (len(), truth value) and appends everything afterwards; worker/facility "absence_late": calendar handed over empty and filled afterwards through the
   caller's reference; worker/facility/workplace "copy_of": a copy.copy twin whose run-time containers are still the template's,
   "product_wire": "register-and-link" grows the product with append_child_component, parts hung under an assembly as soon as it is registered,
   "order": optional permutation of task indexes giving the order inside workflow.task_list,
   "hash": optional list of hash ranks for tasks (default: index), "chash": same for components}
IDs are always equal to names, so nothing depends on uuid4; init_datetime is fixed.
"""
import datetime

from . import bootstrap  # noqa: F401  (must be first: binds pDESy to REPO)
from pDESy.model.base_component import BaseComponent, BaseComponentState
from pDESy.model.base_facility import BaseFacility, BaseFacilityState
from pDESy.model.base_organization import BaseOrganization
from pDESy.model.base_priority_rule import (
    ResourcePriorityRuleMode,
    TaskPriorityRuleMode,
    WorkplacePriorityRuleMode,
)
from pDESy.model.base_product import BaseProduct
from pDESy.model.base_project import BaseProject, BaseProjectStatus
from pDESy.model.base_subproject_task import BaseSubProjectTask
from pDESy.model.base_task import BaseTask, BaseTaskDependency, BaseTaskState
from pDESy.model.base_team import BaseTeam
from pDESy.model.base_worker import BaseWorker, BaseWorkerState
from pDESy.model.base_workflow import BaseWorkflow
from pDESy.model.base_workplace import BaseWorkplace

T_NONE, T_READY, T_WORKING, T_FINISHED = (
    int(BaseTaskState.NONE),
    int(BaseTaskState.READY),
    int(BaseTaskState.WORKING),
    int(BaseTaskState.FINISHED),
)
R_FREE, R_WORKING, R_ABSENCE = (
    int(BaseWorkerState.FREE),
    int(BaseWorkerState.WORKING),
    int(BaseWorkerState.ABSENCE),
)
C_NONE, C_READY, C_WORKING, C_FINISHED = (
    int(BaseComponentState.NONE),
    int(BaseComponentState.READY),
    int(BaseComponentState.WORKING),
    int(BaseComponentState.FINISHED),
)
TSTATE_NAME = {T_NONE: "NONE", T_READY: "READY", T_WORKING: "WORKING", T_FINISHED: "FINISHED", 3: "WORKING_ADD"}
DEP = {"FS": BaseTaskDependency.FS, "SS": BaseTaskDependency.SS, "FF": BaseTaskDependency.FF, "SF": BaseTaskDependency.SF}
TASK_RULES = {m.name: m for m in TaskPriorityRuleMode}
RES_RULES = {m.name: m for m in ResourcePriorityRuleMode}
WP_RULES = {m.name: m for m in WorkplacePriorityRuleMode}
INIT_DT = datetime.datetime(2020, 4, 1, 8, 0, 0)


# Harness subclasses: same class __name__ (JSON "type" fields unchanged), harness-assigned hash so
# that the iteration order of every set of tasks / components inside the library is owned by the
# harness (for small distinct ints CPython sets iterate in ascending hash order).
class _HTask(BaseTask):
    __hash__ = lambda self: self._vh  # noqa: E731


_HTask.__name__ = "BaseTask"
_HTask.__qualname__ = "BaseTask"


class _HSubTask(BaseSubProjectTask):
    __hash__ = lambda self: self._vh  # noqa: E731


_HSubTask.__name__ = "BaseSubProjectTask"
_HSubTask.__qualname__ = "BaseSubProjectTask"

class _HWorker(BaseWorker):
    __hash__ = lambda self: self._vh  # noqa: E731


_HWorker.__name__ = "BaseWorker"
_HWorker.__qualname__ = "BaseWorker"


class _HFacility(BaseFacility):
    __hash__ = lambda self: self._vh  # noqa: E731


_HFacility.__name__ = "BaseFacility"
_HFacility.__qualname__ = "BaseFacility"

# user-style subclasses with value equality (two distinct objects that carry the same name and the same skills compare equal and hash alike)
class _VWorker(_HWorker):
    def __eq__(self, other):
        return type(other) is type(self) and other.name == self.name and other.workamount_skill_mean_map == self.workamount_skill_mean_map

    def __hash__(self):
        return hash(self.name)


_VWorker.__name__ = "BaseWorker"
_VWorker.__qualname__ = "BaseWorker"


class _VFacility(_HFacility):
    def __eq__(self, other):
        return type(other) is type(self) and other.name == self.name and other.workamount_skill_mean_map == self.workamount_skill_mean_map

    def __hash__(self):
        return hash(self.name)


_VFacility.__name__ = "BaseFacility"
_VFacility.__qualname__ = "BaseFacility"


class _VTask(_HTask):
    """a user subclass whose equality is the task's name (skill maps are keyed by it)"""

    def __eq__(self, other):
        return type(other) is type(self) and other.name == self.name

    def __hash__(self):
        return hash(self.name)


_VTask.__name__ = "BaseTask"
_VTask.__qualname__ = "BaseTask"


# user-style container subclasses with the usual conveniences (len(), truth value = "has members", iteration)
class _UWorkflow(BaseWorkflow):
    def __len__(self):
        return len(self.task_list)

    def __iter__(self):
        return iter(self.task_list)


_UWorkflow.__name__ = "BaseWorkflow"
_UWorkflow.__qualname__ = "BaseWorkflow"


class _UProduct(BaseProduct):
    def __len__(self):
        return len(self.component_list)


_UProduct.__name__ = "BaseProduct"
_UProduct.__qualname__ = "BaseProduct"


class _UOrganization(BaseOrganization):
    def __len__(self):
        return len(self.team_list)


_UOrganization.__name__ = "BaseOrganization"
_UOrganization.__qualname__ = "BaseOrganization"


class _UTeam(BaseTeam):
    def __len__(self):
        return len(self.worker_list)


_UTeam.__name__ = "BaseTeam"
_UTeam.__qualname__ = "BaseTeam"

PLACEMENT_LOG = []  # appended by _HComponent / _HWorkplace, cleared by the runner per execution


class _HComponent(BaseComponent):
    __hash__ = lambda self: self._vh  # noqa: E731

    def set_placed_workplace(self, placed_workplace, set_to_all_children=True):
        PLACEMENT_LOG.append(("comp_set", self.ID, placed_workplace.ID if placed_workplace is not None else None))
        return super().set_placed_workplace(placed_workplace, set_to_all_children=set_to_all_children)


_HComponent.__name__ = "BaseComponent"
_HComponent.__qualname__ = "BaseComponent"


class _VComponent(_HComponent):
    """a user subclass whose equality is the part's name (its part number)"""

    def __eq__(self, other):
        return type(other) is type(self) and other.name == self.name

    def __hash__(self):
        return hash(self.name)


_VComponent.__name__ = "BaseComponent"
_VComponent.__qualname__ = "BaseComponent"


class _HWorkplace(BaseWorkplace):
    def set_placed_component(self, placed_component, set_to_all_children_components=True):
        PLACEMENT_LOG.append(("wp_set", self.ID, placed_component.ID))
        return super().set_placed_component(
            placed_component, set_to_all_children_components=set_to_all_children_components
        )

    def remove_placed_component(self, placed_component, remove_to_all_children_components=True):
        PLACEMENT_LOG.append(("wp_remove", self.ID, placed_component.ID))
        return super().remove_placed_component(
            placed_component, remove_to_all_children_components=remove_to_all_children_components
        )


_HWorkplace.__name__ = "BaseWorkplace"
_HWorkplace.__qualname__ = "BaseWorkplace"


class _UComponent(_HComponent):
    """a user subclass of an assembly: len() / iteration over its parts (a part without parts of its own is 'empty')"""

    def __len__(self):
        return len(self.child_component_list)

    def __iter__(self):
        return iter(self.child_component_list)


_UComponent.__name__ = "BaseComponent"
_UComponent.__qualname__ = "BaseComponent"


class _EqWorkplace(_HWorkplace):
    """a user subclass comparing docks by name (and therefore unhashable: __eq__ without __hash__)"""

    def __eq__(self, other):
        return type(other) is type(self) and other.name == self.name

    __hash__ = None


_EqWorkplace.__name__ = "BaseWorkplace"
_EqWorkplace.__qualname__ = "BaseWorkplace"


class Model(object):
    """The built objects, addressable by name."""

    def __init__(self):
        self.project = None
        self.tasks = []
        self.workers = []
        self.facilities = []
        self.teams = []
        self.workplaces = []
        self.components = []
        self.byname = {}
        self.second_workflow = None
        self.second_project = None


def build(spec, plain=False):
    """Build a fresh project from `spec`.  plain=True uses the library's own classes (id() hashes)."""
    TaskC = BaseTask if plain else (_VTask if spec.get("value_eq_tasks") else _HTask)
    SubC = BaseSubProjectTask if plain else _HSubTask
    CompC = BaseComponent if plain else (_VComponent if spec.get("value_eq_components") else (_UComponent if spec.get("build_style") == "bottom-up" else _HComponent))
    WpC = BaseWorkplace if plain else (_EqWorkplace if spec.get("eq_workplaces") else _HWorkplace)
    WkC = BaseWorker if plain else (_VWorker if spec.get("value_eq") else _HWorker)
    FcC = BaseFacility if plain else (_VFacility if spec.get("value_eq") else _HFacility)
    bottom_up = spec.get("build_style") == "bottom-up"
    TeamC = _UTeam if bottom_up else BaseTeam
    whash = spec.get("whash")
    late_cals = {}  # calendars handed to the constructors while still empty and filled through the caller's own reference afterwards ("absence_late")
    nres = [0]
    m = Model()
    hashes = spec.get("hash") or list(range(len(spec["tasks"])))
    for i, ts in enumerate(spec["tasks"]):
        kw = dict(
            name=ts["name"],
            ID=ts.get("id") or ts["name"],
            default_work_amount=ts.get("work", 1.0),
            default_progress=ts.get("progress"),
            auto_task=bool(ts.get("auto", False)),
            need_facility=bool(ts.get("nf", False)),
            fixing_allocating_worker_id_list=ts.get("fixw"),
            fixing_allocating_facility_id_list=ts.get("fixf"),
            due_time=ts.get("due"),
            work_amount_progress_of_unit_step_time=ts.get("unit"),
        )
        if ts.get("wrule") is not None:
            kw["worker_priority_rule"] = RES_RULES[ts["wrule"]]
        if ts.get("frule") is not None:
            kw["facility_priority_rule"] = RES_RULES[ts["frule"]]
        if ts.get("wprule") is not None:
            kw["workplace_priority_rule"] = WP_RULES[ts["wprule"]]
        if ts.get("sub") is not None:
            sub = ts["sub"]
            kw["auto_task"] = bool(sub.get("auto", True))  # ("auto": False - a sub-project task that is worked by the parent's own people)
            t = SubC(
                file_path=sub.get("file_path"),
                unit_timedelta=datetime.timedelta(minutes=sub["unit_min"]) if sub.get("unit_min") else None,
                **kw
            )
        else:
            t = TaskC(**kw)
        t._vh = hashes[i]
        m.tasks.append(t)
        m.byname[t.ID] = t
    link_api = spec.get("link_api")  # how the links are declared: append_input_task (default), "int" (kind given as a plain integer),
    # "link_late": the links are declared only after every task has been registered in the workflow (successors registered before their predecessors)
    for i, j, kind in (spec.get("links", []) if not spec.get("link_late") else []):  # "extend" / "extend-gen" (extend_input_task_list with a list / a one-shot generator)
        mode = DEP[kind]
        link_api = (spec.get("link_api_for") or {}).get(str(j), spec.get("link_api"))  # ("link_api_for": {successor index: api} - different successors declared in different ways)
        if link_api == "int":
            m.tasks[j].append_input_task(m.tasks[i], task_dependency_mode=int(mode))
        elif link_api == "extend":
            m.tasks[j].extend_input_task_list([m.tasks[i]], mode)
        elif link_api == "extend-gen":
            m.tasks[j].extend_input_task_list((x for x in [m.tasks[i]]), mode)
        elif link_api == "input-only":
            m.tasks[j].input_task_list.append([m.tasks[i], mode])  # as the constructor keyword input_task_list does: the predecessor is not told
        else:
            m.tasks[j].append_input_task(m.tasks[i], task_dependency_mode=mode)
    for j1, j2 in spec.get("share_input_list", []):
        # two tasks that wait for the same predecessors were given ONE list object as their input list (constructor keyword input_task_list=shared)
        m.tasks[j2].input_task_list = m.tasks[j1].input_task_list
    chash = spec.get("chash") or list(range(len(spec.get("components", []))))
    for i, cs in enumerate(spec.get("components", [])):
        c = CompC(name=cs["name"], ID=cs.get("id") or cs["name"], space_size=cs.get("space"))
        c._vh = 100 + chash[i]
        m.components.append(c)
        m.byname[c.ID] = c
    for i, cs in enumerate(spec.get("components", [])):
        for ch in cs.get("children", []):
            m.components[i].append_child_component(m.components[ch])
        for ti in cs.get("tasks", []):
            if cs.get("wire") == "ctor":
                # as the constructor keyword does: the component lists the task, the task does not point back
                m.components[i].targeted_task_list.append(m.tasks[ti])
            else:
                m.components[i].append_targeted_task(m.tasks[ti])
        for ti in cs.get("also_lists", []):
            m.components[i].targeted_task_list.append(m.tasks[ti])  # a task listed by a second component (its own link points elsewhere)
    for tms in spec.get("teams", []):
        if tms.get("wire") == "ctor":
            # one-sided wiring through the constructor keyword: only the team knows its tasks
            team = TeamC(name=tms["name"], ID=tms["name"], targeted_task_list=[m.tasks[ti] for ti in tms.get("targets", [])])
        else:
            team = TeamC(name=tms["name"], ID=tms["name"])
        for ws in tms.get("workers", []):
            if ws.get("skills_inplace"):
                # built like `BaseWorker(name)` and filled afterwards by item assignment (as user code often does)
                w = WkC(name=ws["name"], ID=ws.get("id") or ws["name"], cost_per_time=ws.get("cost", 0.0))
                for k_, v_ in ws.get("skills", {}).items():
                    w.workamount_skill_mean_map[k_] = v_
                for k_, v_ in ws.get("fskills", {}).items():
                    w.facility_skill_map[k_] = v_
                w.absence_time_list = list(ws.get("absence", []))
                w._vh = 200 + nres[0]
                nres[0] += 1
                team.add_worker(w)
                m.workers.append(w)
                m.byname[w.ID] = w
                continue
            w = WkC(
                name=ws["name"],
                ID=ws.get("id") or ws["name"],
                cost_per_time=ws.get("cost", 0.0),
                solo_working=bool(ws.get("solo", False)),
                workamount_skill_mean_map=dict(ws.get("skills", {})),
                workamount_skill_sd_map={},
                facility_skill_map=dict(ws.get("fskills", {})),
                absence_time_list=(late_cals.setdefault(ws.get("id") or ws["name"], []) if ws.get("absence_late") is not None else list(ws.get("absence", []))),
                main_workplace_id=ws.get("mainwp"),
                quality_skill_mean_map={},
                quality_skill_sd_map={},
            )
            w._vh = 200 + (whash[nres[0]] if whash and nres[0] < len(whash) else nres[0])
            nres[0] += 1
            team.add_worker(w)
            if ws.get("absence_after") is not None:
                w.absence_time_list = list(ws["absence_after"])  # the calendar is assigned after construction, exactly as written (unsorted, repeated entries)
            if ws.get("team_id"):
                w.team_id = ws["team_id"]  # a worker on loan: listed here, administratively member of another team (save/load checks only)
            m.workers.append(w)
            m.byname[w.ID] = w
        for ti in (tms.get("targets", []) if tms.get("wire") != "ctor" else []):
            team.append_targeted_task(m.tasks[ti])
        m.teams.append(team)
        m.byname[team.name] = team
    for wps in spec.get("workplaces", []):
        cap = wps.get("cap")
        wp = WpC(name=wps["name"], ID=wps.get("id") or wps["name"], max_space_size=float("inf") if cap == "inf" else cap)
        for fs in wps.get("facilities", []):
            f = FcC(
                name=fs["name"],
                ID=fs.get("id") or fs["name"],
                cost_per_time=fs.get("cost", 0.0),
                solo_working=bool(fs.get("solo", False)),
                workamount_skill_mean_map=dict(fs.get("skills", {})),
                workamount_skill_sd_map={},
                absence_time_list=(late_cals.setdefault(fs.get("id") or fs["name"], []) if fs.get("absence_late") is not None else list(fs.get("absence", []))),
            )
            if fs.get("absence_after") is not None:
                f.absence_time_list = list(fs["absence_after"])
            f._vh = 300 + len(m.facilities)
            wp.add_facility(f)
            m.facilities.append(f)
            m.byname[f.ID] = f
        for ti in wps.get("targets", []):
            if ti in (wps.get("targets_ctor") or []):
                wp.targeted_task_list.append(m.tasks[ti])  # as the constructor keyword targeted_task_list does: the task is not told
            else:
                wp.append_targeted_task(m.tasks[ti])
        m.workplaces.append(wp)
        m.byname[wp.ID] = wp
    for i, wps in enumerate(spec.get("workplaces", [])):
        for src in wps.get("inputs", []):
            if wps.get("wire_inputs") == "one-sided":
                # declared on the downstream workplace only (as the constructor keyword does)
                m.workplaces[i].input_workplace_list.append(m.workplaces[src])
            elif wps.get("wire_inputs") == "one-sided-out":
                # declared on the sending workplace only (constructor keyword output_workplace_list): the receiver's input list stays empty
                m.workplaces[src].output_workplace_list.append(m.workplaces[i])
            else:
                m.workplaces[i].append_input_workplace(m.workplaces[src])
    # hierarchies (parent team / parent workplace) and deliberate aliasing of list objects between model objects
    for i, tms in enumerate(spec.get("teams", [])):
        if tms.get("parent") is not None:
            m.teams[i].set_parent_team(m.teams[tms["parent"]])
        for ws in tms.get("workers", []):
            if ws.get("share_logs_with"):
                a_, b_ = m.byname[ws.get("id") or ws["name"]], m.byname[ws["share_logs_with"]]
                a_.state_record_list = b_.state_record_list
                a_.cost_list = b_.cost_list
                a_.assigned_task_id_record = b_.assigned_task_id_record
    for i, wps in enumerate(spec.get("workplaces", [])):
        if wps.get("parent") is not None:
            m.workplaces[i].set_parent_workplace(m.workplaces[wps["parent"]])
    if spec.get("alias_conveyor_lists"):
        # all workplaces with the same set of inputs share ONE input list object; likewise for outputs
        groups = {}
        for wp in m.workplaces:
            groups.setdefault(tuple(id(x) for x in wp.input_workplace_list), []).append(wp)
        for key, wl in groups.items():
            if key and len(wl) > 1:
                shared = wl[0].input_workplace_list
                for wp in wl[1:]:
                    wp.input_workplace_list = shared
        groups = {}
        for wp in m.workplaces:
            groups.setdefault(tuple(id(x) for x in wp.output_workplace_list), []).append(wp)
        for key, wl in groups.items():
            if key and len(wl) > 1:
                shared = wl[0].output_workplace_list
                for wp in wl[1:]:
                    wp.output_workplace_list = shared
    order = spec.get("order") or list(range(len(m.tasks)))
    if spec.get("link_late"):
        # register a task, declare its links to the tasks it waits for (registered or not), go on with the next one - successors first
        wf = BaseWorkflow([])
        for j in list(order)[::-1]:
            wf.append_child_task(m.tasks[j])
            for i, jj, kind in spec.get("links", []):
                if jj == j:
                    m.tasks[j].append_input_task(m.tasks[i], task_dependency_mode=DEP[kind])
    elif spec.get("caller_list_append"):
        # the caller keeps the list he handed to the workflow and appends a later phase's task to HIS list afterwards (never given to the workflow)
        mine = [m.tasks[i] for i in order]
        wf = BaseWorkflow(mine)
        mine.append(BaseTask("phase2", ID="phase2", default_work_amount=31.0))
    else:
        wf = BaseWorkflow([m.tasks[i] for i in order])
    init_dt = INIT_DT
    if spec.get("init_tz_hours") is not None:
        init_dt = INIT_DT.replace(tzinfo=datetime.timezone(datetime.timedelta(hours=spec["init_tz_hours"])))  # a timezone-aware project start
    if spec.get("product_wire") == "register-and-link":
        # the product is grown step by step: each component is registered and its parts are hung under it right away (a part is registered when its own turn comes)
        product = BaseProduct([])
        for i, cs in enumerate(spec.get("components", [])):
            for ch in cs.get("children", []):
                m.components[i].child_component_list.remove(m.components[ch])  # (undo the wiring done above; it is redone in the other order)
                m.components[ch].parent_component_list.remove(m.components[i])
        for i, cs in enumerate(spec.get("components", [])):
            product.append_child_component(m.components[i])
            for ch in cs.get("children", []):
                m.components[i].append_child_component(m.components[ch])
    elif spec.get("product_wire") == "part-first":
        # a part is registered in the product first and hung under its assembly afterwards; the assembly is registered last
        product = BaseProduct([])
        kids = set(ch for cs in spec.get("components", []) for ch in cs.get("children", []))
        for i, cs in enumerate(spec.get("components", [])):
            for ch in cs.get("children", []):
                m.components[i].child_component_list.remove(m.components[ch])
                m.components[ch].parent_component_list.remove(m.components[i])
        for i in sorted(kids):
            product.append_child_component(m.components[i])
        for i, cs in enumerate(spec.get("components", [])):
            for ch in cs.get("children", []):
                m.components[i].append_child_component(m.components[ch])
        for i, cs in enumerate(spec.get("components", [])):
            if i not in kids:
                product.append_child_component(m.components[i])
    else:
        product = BaseProduct([m.components[i] for i in (spec.get("corder") or range(len(m.components)))])  # ("corder": the order inside product.component_list)
    for rs in [w_ for tm_ in spec.get("teams", []) for w_ in tm_.get("workers", [])] + [f_ for wp_ in spec.get("workplaces", []) for f_ in wp_.get("facilities", [])]:
        if rs.get("absence_late") is not None:
            late_cals[rs.get("id") or rs["name"]].extend(rs["absence_late"])  # the caller fills the list object he handed over
        if rs.get("copy_of"):
            # a twin made with copy.copy(template) whose declared attributes were rebound afterwards: the run-time containers are still the template's
            a_, b_ = m.byname[rs.get("id") or rs["name"]], m.byname[rs["copy_of"]]
            a_.assigned_task_list = b_.assigned_task_list
            a_.state_record_list = b_.state_record_list
            a_.cost_list = b_.cost_list
            a_.assigned_task_id_record = b_.assigned_task_id_record
    for ts in spec.get("tasks", []):
        if ts.get("copy_of"):
            # a task cloned with copy.copy(template) and re-labelled / re-wired afterwards: its run-time containers are still the template's
            a_, b_ = m.byname[ts.get("id") or ts["name"]], m.byname[ts["copy_of"]]
            a_.allocated_worker_list = b_.allocated_worker_list
            a_.allocated_facility_list = b_.allocated_facility_list
            a_.state_record_list = b_.state_record_list
            a_.remaining_work_amount_record_list = b_.remaining_work_amount_record_list
            a_.allocated_worker_id_record = b_.allocated_worker_id_record
            a_.allocated_facility_id_record = b_.allocated_facility_id_record
    for wps in spec.get("workplaces", []):
        if wps.get("copy_of"):
            a_, b_ = m.byname[wps.get("id") or wps["name"]], m.byname[wps["copy_of"]]
            a_.placed_component_list = b_.placed_component_list
            a_.placed_component_id_record = b_.placed_component_id_record
            a_.cost_list = b_.cost_list
    if bottom_up:
        # the project is created first, with empty containers of user subclasses (len() / truth value = "has members"), and everything is appended afterwards
        wf0, pr0, org0 = _UWorkflow([]), _UProduct([]), _UOrganization([], [])
        m.project = BaseProject(init_datetime=init_dt, unit_timedelta=datetime.timedelta(minutes=spec.get("unit_min", 1)), product=pr0, workflow=wf0, organization=org0)
        for t_ in list(wf.task_list):
            wf0.append_child_task(t_)
        for c_ in product.component_list:
            pr0.append_child_component(c_)
        org0.team_list.extend(m.teams)
        org0.workplace_list.extend(m.workplaces)
    else:
        m.project = BaseProject(
            init_datetime=init_dt,
            unit_timedelta=datetime.timedelta(minutes=spec.get("unit_min", 1)),
            product=product,
            workflow=wf,
            organization=BaseOrganization(team_list=list(m.teams), workplace_list=list(m.workplaces)),
        )
    if spec.get("second_workflow"):
        # the same task objects are afterwards also put into another BaseWorkflow (a partial view of the project with a project object of its own)
        m.second_workflow = BaseWorkflow([])
        for ti in spec["second_workflow"]:
            m.second_workflow.append_child_task(m.tasks[ti])
        m.second_project = BaseProject(workflow=m.second_workflow, organization=m.project.organization, product=BaseProduct([]))
    return m


def adopt(project):
    """Wrap an arbitrary (e.g. JSON-loaded) project into a Model for dumping."""
    m = Model()
    m.project = project
    m.tasks = list(project.workflow.task_list)
    m.components = list(project.product.component_list)
    m.teams = list(project.organization.team_list)
    m.workplaces = list(project.organization.workplace_list)
    m.workers = [w for t in m.teams for w in t.worker_list]
    m.facilities = [f for w in m.workplaces for f in w.facility_list]
    for o in m.tasks + m.components + m.teams + m.workplaces + m.workers + m.facilities:
        m.byname[o.ID] = o
    return m


def _ids(lst):
    return [None if x is None else (x if isinstance(x, str) else x.ID) for x in lst]


def _rec(lst):
    """Copy of a record list of ID lists (entries may be None after an absence insert)."""
    return [None if e is None else list(e) for e in lst]


def dump(m, live=True):
    """Complete observable result of a run: every log, time, costs, status (+ live state)."""
    p = m.project
    d = {
        "time": p.time,
        "status": int(p.status),
        "mode": int(p.simulation_mode),
        "cost": list(p.cost_list),
        "org_cost": list(p.organization.cost_list),
        "absence": list(p.absence_time_list),
        "tasks": {},
        "workers": {},
        "facilities": {},
        "components": {},
        "teams": {},
        "workplaces": {},
    }
    for t in sorted(p.workflow.task_list, key=lambda x: (type(x.ID).__name__, x.ID)):
        e = {
            "state_log": [int(s) for s in t.state_record_list],
            "rem_log": [float(x) for x in t.remaining_work_amount_record_list],
            "w_log": _rec(t.allocated_worker_id_record),
            "f_log": _rec(t.allocated_facility_id_record),
        }
        if live:
            e.update(
                state=int(t.state),
                rem=float(t.remaining_work_amount),
                w=_ids(t.allocated_worker_list),
                f=_ids(t.allocated_facility_list),
                est=t.est,
                eft=t.eft,
                lst=t.lst,
                lft=t.lft,
            )
        d["tasks"][t.ID] = e
    for team in p.organization.team_list:
        d["teams"][team.ID] = {"cost": list(team.cost_list)}
        for w in team.worker_list:
            e = {
                "state_log": [int(s) for s in w.state_record_list],
                "cost": list(w.cost_list),
                "t_log": _rec(w.assigned_task_id_record),
            }
            if live:
                e.update(state=int(w.state), t=_ids(w.assigned_task_list))
            d["workers"][w.ID] = e
    for wp in p.organization.workplace_list:
        e = {"cost": list(wp.cost_list), "c_log": _rec(wp.placed_component_id_record)}
        if live:
            e.update(c=_ids(wp.placed_component_list))
        d["workplaces"][wp.ID] = e
        for f in wp.facility_list:
            e = {
                "state_log": [int(s) for s in f.state_record_list],
                "cost": list(f.cost_list),
                "t_log": _rec(f.assigned_task_id_record),
            }
            if live:
                e.update(state=int(f.state), t=_ids(f.assigned_task_list))
            d["facilities"][f.ID] = e
    for c in p.product.component_list:
        e = {"state_log": [int(s) for s in c.state_record_list], "wp_log": list(c.placed_workplace_id_record)}
        if live:
            e.update(
                state=int(c.state),
                wp=None
                if c.placed_workplace is None
                else (c.placed_workplace if isinstance(c.placed_workplace, str) else c.placed_workplace.ID),
            )
        d["components"][c.ID] = e
    if live:
        d["cpl"] = p.workflow.critical_path_length
    return d


def log_lengths(m):
    """name -> length of every per-step log in the model."""
    p = m.project
    L = {"project.cost_list": len(p.cost_list), "organization.cost_list": len(p.organization.cost_list)}
    for t in p.workflow.task_list:
        L["task %s state" % t.ID] = len(t.state_record_list)
        L["task %s remaining" % t.ID] = len(t.remaining_work_amount_record_list)
        L["task %s workers" % t.ID] = len(t.allocated_worker_id_record)
        L["task %s facilities" % t.ID] = len(t.allocated_facility_id_record)
    for c in p.product.component_list:
        L["component %s state" % c.ID] = len(c.state_record_list)
        L["component %s placed" % c.ID] = len(c.placed_workplace_id_record)
    for team in p.organization.team_list:
        L["team %s cost" % team.ID] = len(team.cost_list)
        for w in team.worker_list:
            L["worker %s state" % w.ID] = len(w.state_record_list)
            L["worker %s cost" % w.ID] = len(w.cost_list)
            L["worker %s tasks" % w.ID] = len(w.assigned_task_id_record)
    for wp in p.organization.workplace_list:
        L["workplace %s cost" % wp.ID] = len(wp.cost_list)
        L["workplace %s placed" % wp.ID] = len(wp.placed_component_id_record)
        for f in wp.facility_list:
            L["facility %s state" % f.ID] = len(f.state_record_list)
            L["facility %s cost" % f.ID] = len(f.cost_list)
            L["facility %s tasks" % f.ID] = len(f.assigned_task_id_record)
    return L


def snap(p):
    """Live state of a project (used by the step observer at every phase)."""
    s = {"t": p.time, "tasks": {}, "workers": {}, "facilities": {}, "components": {}, "workplaces": {}}
    for t in p.workflow.task_list:
        s["tasks"][t.ID] = (
            int(t.state),
            float(t.remaining_work_amount),
            tuple(w.ID for w in t.allocated_worker_list),
            tuple(f.ID for f in t.allocated_facility_list),
            t.est,
            t.eft,
            t.lst,
            t.lft,
        )
    for team in p.organization.team_list:
        for w in team.worker_list:
            s["workers"][w.ID] = (int(w.state), tuple(t.ID for t in w.assigned_task_list))
    for wp in p.organization.workplace_list:
        s["workplaces"][wp.ID] = tuple(c.ID for c in wp.placed_component_list)
        for f in wp.facility_list:
            s["facilities"][f.ID] = (int(f.state), tuple(t.ID for t in f.assigned_task_list))
    for c in _all_components(p):
        s["components"][c.ID] = (int(c.state), None if c.placed_workplace is None else c.placed_workplace.ID)
    s["cpl"] = p.workflow.critical_path_length
    return s


def _all_components(p):
    """the product's components plus every component the model reaches otherwise (a task's target, a part of an assembly): the user's components,
    whether or not the product's own list has them all"""
    out = list(p.product.component_list)
    seen = set(id(c) for c in out)
    todo = [t.target_component for t in p.workflow.task_list if t.target_component is not None] + [ch for c in out for ch in c.child_component_list]
    while todo:
        c = todo.pop()
        if id(c) in seen or isinstance(c, str):
            continue
        seen.add(id(c))
        out.append(c)
        todo += list(c.child_component_list)
    return out


def canon(p, extra=()):
    """Canonical form of the state at an 'updated' phase: exactly the fields the next steps read.

    Absolute time only enters the future through the fresh absence answers and PERT values, which
    are stored here relative to t; the READY count so far is kept (FIFO reads it from the log);
    lst/lft and the resource states are kept although the unchanged library overwrites them before
    reading them again (a changed library might not).
    """
    t0 = p.time
    ts = []
    for t in sorted(p.workflow.task_list, key=lambda x: (type(x.ID).__name__, x.ID)):
        ts.append(
            (
                t.ID,
                int(t.state),
                round(float(t.remaining_work_amount), 9),
                tuple(w.ID for w in t.allocated_worker_list),
                tuple(f.ID for f in t.allocated_facility_list),
                round(t.est - t0, 9),
                round(t.eft - t0, 9),
                round(t.lst - t0, 9),
                round(t.lft - t0, 9),
                sum(1 for s in t.state_record_list if s == BaseTaskState.READY),
            )
        )
    # resource .state is normally overwritten from the absence answer before it is read again, but it is kept in the
    # canonical state all the same: a changed library might read it, and then merging on less would hide that
    ws = []
    for team in p.organization.team_list:
        for w in team.worker_list:
            ws.append((w.ID, int(w.state), tuple(t.ID for t in w.assigned_task_list)))
    fs = []
    wps = []
    for wp in p.organization.workplace_list:
        wps.append((wp.ID, tuple(c.ID for c in wp.placed_component_list)))
        for f in wp.facility_list:
            fs.append((f.ID, int(f.state), tuple(t.ID for t in f.assigned_task_list)))
    cs = []
    for c in p.product.component_list:
        cs.append((c.ID, int(c.state), None if c.placed_workplace is None else c.placed_workplace.ID))
    return (tuple(ts), tuple(ws), tuple(fs), tuple(wps), tuple(cs), round(p.workflow.critical_path_length - t0, 9), extra)
