"""Edits of a live model between two runs on one object, each with the spec of the model it turns the base into."""


def edit_cases():
    """(spec before, spec after, edit applied to the live objects) - the model is edited between two runs on one object"""
    import copy

    out = []
    for links in ([], [[0, 1, "FS"]], [[0, 2, "SS"]]):
        base = {"tasks": [{"name": "T0", "work": 2.0}, {"name": "T1", "work": 1.0}, {"name": "T2", "work": 2.0}], "links": links,
                "teams": [{"name": "TM0", "targets": [0, 1], "workers": [{"name": "W0", "skills": {"T0": 1.0, "T1": 1.0, "T2": 1.0}, "cost": 1.0}]},
                          {"name": "TM1", "targets": [1, 2], "workers": [{"name": "W1", "skills": {"T0": 1.0, "T1": 1.0, "T2": 1.0}, "cost": 2.0}]}]}
        b1 = copy.deepcopy(base)
        b1["teams"][0]["targets"] = [0, 1, 2]
        out.append((base, b1, "team-add-target"))
        long_a = copy.deepcopy(base)
        long_a["tasks"][2]["work"] = 6.0  # T2 is still in progress when TM0's worker has run out of work and is refused for it
        long_b = copy.deepcopy(long_a)
        long_b["teams"][0]["targets"] = [0, 1, 2]
        out.append((long_a, long_b, "team-add-target"))
        b2 = copy.deepcopy(base)
        b2["teams"][1]["targets"] = [1]
        out.append((base, b2, "team-remove-target"))
        out.append((base, copy.deepcopy(b2), "team-drop-target"))  # the task is only taken off the team's own list (the task's mirror list is left alone)
        b3 = copy.deepcopy(base)
        b3["teams"][0]["workers"][0]["skills"]["T0"] = 2.0
        out.append((base, b3, "worker-skill"))
        b4 = copy.deepcopy(base)
        b4["tasks"][2]["work"] = 1.0
        out.append((base, b4, "task-work"))
        b5 = copy.deepcopy(base)
        b5["teams"][1]["workers"][0]["solo"] = True
        out.append((base, b5, "worker-solo"))
        b6 = copy.deepcopy(base)
        b6["teams"][0]["workers"][0]["absence"] = [1]
        out.append((base, b6, "worker-absence-inplace"))
        b7 = copy.deepcopy(base)
        b7["teams"][0]["workers"].append(b7["teams"][1]["workers"].pop(0))
        out.append((base, b7, "move-worker"))
        b9a, b9b = copy.deepcopy(base), copy.deepcopy(base)
        b9a["teams"][0]["workers"][0]["absence"] = [0]
        b9b["teams"][0]["workers"][0]["absence"] = [1]
        out.append((b9a, b9b, "worker-absence-move"))  # a day off moved: same list object, same length, other step
        b10 = copy.deepcopy(base)
        b10["teams"][0]["workers"][0]["absence"] = [3]
        out.append((base, b10, "worker-absence-append-3"))  # used with runs stopped before step 3 and continued
        b11 = copy.deepcopy(base)
        b11["teams"][0]["targets"] = [2]
        out.append((base, b11, "team-replace"))  # team TM0 dissolved and founded again under the same ID with another assignment
        if not any(j == 2 for _, j, _ in links):
            b8 = copy.deepcopy(base)
            b8["links"] = list(links) + [[0, 2, "FS"]]
            out.append((base, b8, "add-link"))
    # re-staffing between two runs
    full3 = {"T0": 1.0, "T1": 1.0, "T2": 1.0}
    mw = {"tasks": [{"name": "T0", "work": 4.0}, {"name": "T1", "work": 1.0}, {"name": "T2", "work": 1.0}], "links": [],
          "teams": [{"name": "TM0", "targets": [0], "workers": [{"name": "W0", "skills": dict(full3), "cost": 1.0}]},
                    {"name": "TM1", "targets": [1, 2], "workers": [{"name": "W1", "skills": dict(full3), "cost": 2.0}, {"name": "W2", "skills": dict(full3), "cost": 3.0}]}]}
    mw2 = copy.deepcopy(mw)
    mw2["teams"][0]["workers"].append(mw2["teams"][1]["workers"].pop(0))
    out.append((mw, mw2, "move-worker"))  # the moved worker's former team soon runs out of work while his new team's long task goes on
    rs = {"tasks": [{"name": "T0", "work": 2.0}, {"name": "T1", "work": 1.0}, {"name": "T2", "work": 2.0}], "links": [[0, 1, "FS"]],
          "teams": [{"name": "TM0", "targets": [0, 1], "workers": [{"name": "W0", "skills": dict(full3), "cost": 1.0}]},
                    {"name": "TM1", "targets": [0, 1, 2], "workers": [{"name": "W1", "skills": dict(full3), "cost": 2.0}]}]}
    rs2 = copy.deepcopy(rs)
    rs2["teams"][1]["workers"] = [rs2["teams"][0]["workers"].pop(0)]
    out.append((rs, rs2, "restaff"))  # W1 leaves the organization, W0 is moved from TM0 to TM1: everything is still servable (by W0 through TM1)
    # a new task given to a component that had none (a full run lies before it)
    at = {"tasks": [{"name": "T0", "work": 2.0}, {"name": "T1", "work": 1.0}], "links": [[0, 1, "FS"]],
          "components": [{"name": "C0", "tasks": [0, 1]}, {"name": "CE", "tasks": []}],
          "teams": [{"name": "TM0", "targets": [0, 1], "workers": [{"name": "W0", "skills": {"T0": 1.0, "T1": 1.0, "T2": 1.0}, "cost": 1.0}]}]}
    at2 = copy.deepcopy(at)
    at2["tasks"].append({"name": "T2", "work": 2.0})
    at2["links"].append([0, 2, "FS"])
    at2["components"][1]["tasks"] = [2]
    at2["teams"][0]["targets"] = [0, 1, 2]
    out.append((at, at2, "add-task"))
    # a machine moved to another workplace
    mf = {"tasks": [{"name": "T0", "work": 2.0, "nf": True}, {"name": "T1", "work": 5.0}], "links": [], "components": [{"name": "C0", "tasks": [0]}],
          "workplaces": [{"name": "WP0", "cap": 1.0, "targets": [0], "facilities": [{"name": "F0", "skills": {"T0": 1.0}, "cost": 1.0, "absence": [0, 1, 2, 3, 4]}]},
                         {"name": "WP1", "cap": 1.0, "targets": [], "facilities": [{"name": "F1", "skills": {"T0": 1.0}, "cost": 2.0}]}],
          "teams": [{"name": "TM0", "targets": [0, 1], "workers": [{"name": "W0", "skills": {"T0": 1.0, "T1": 1.0}, "fskills": {"F0": 1.0, "F1": 1.0}, "cost": 1.0}]}]}
    mf2 = copy.deepcopy(mf)
    mf2["workplaces"][0]["facilities"].append(mf2["workplaces"][1]["facilities"].pop(0))
    out.append((mf, mf2, "move-facility"))
    # a facility model: the machine's own absence list extended in place between two runs
    fb = {"tasks": [{"name": "T0", "work": 6.0, "nf": True}, {"name": "T1", "work": 2.0}], "links": [], "components": [{"name": "C0", "tasks": [0]}],
          "workplaces": [{"name": "WP0", "cap": 1.0, "targets": [0], "facilities": [{"name": "F0", "skills": {"T0": 1.0}, "cost": 2.0}]}],
          "teams": [{"name": "TM0", "targets": [0, 1], "workers": [{"name": "W0", "skills": {"T0": 1.0}, "fskills": {"F0": 1.0}, "cost": 1.0}, {"name": "W1", "skills": {"T1": 1.0}, "cost": 1.0}]}]}
    fa = copy.deepcopy(fb)
    fa["workplaces"][0]["facilities"][0]["absence"] = [2, 3]
    out.append((fb, fa, "facility-absence-inplace"))
    # a finish-to-finish / start-to-finish link added at a stop: T2 (2 units, own worker) is out of work long before T0 (6 units) ends
    for kind in ("FF", "SF"):
        lk = {"tasks": [{"name": "T0", "work": 6.0 if kind == "FF" else 2.0}, {"name": "T1", "work": 1.0}, {"name": "T2", "work": 2.0}], "links": [[1, 0, "FS"]] if kind == "SF" else [],
              "teams": [{"name": "TM0", "targets": [0, 1], "workers": [{"name": "W0", "skills": {"T0": 1.0, "T1": 1.0}, "cost": 1.0}]},
                        {"name": "TM1", "targets": [2], "workers": [{"name": "W1", "skills": {"T2": 1.0}, "cost": 2.0}]}]}
        lk2 = copy.deepcopy(lk)
        lk2["links"] = list(lk["links"]) + [[0, 2, kind]]
        out.append((lk, lk2, "add-%s-link" % kind.lower()))
    # a machine moved into the workplace that needs it (its former workplace serves nothing) ...
    mi = {"tasks": [{"name": "T0", "work": 3.0, "nf": True}, {"name": "T1", "work": 1.0}], "links": [], "components": [{"name": "C0", "tasks": [0]}],
          "workplaces": [{"name": "WP0", "cap": 1.0, "targets": [0], "facilities": []}, {"name": "WP1", "cap": 1.0, "targets": [], "facilities": [{"name": "F1", "skills": {"T0": 1.0}, "cost": 2.0}]}],
          "teams": [{"name": "TM0", "targets": [0, 1], "workers": [{"name": "W0", "skills": {"T0": 1.0, "T1": 1.0}, "fskills": {"F1": 1.0}, "cost": 1.0}, {"name": "W1", "skills": {"T0": 1.0}, "fskills": {"F1": 1.0}, "cost": 1.0}]}]}
    mi2 = copy.deepcopy(mi)
    mi2["workplaces"][0]["facilities"].append(mi2["workplaces"][1]["facilities"].pop(0))
    out.append((mi, mi2, "move-facility-in"))
    # ... and a machine moved OUT of the workplace that is assigned to its task, into the workplace where the component gets stuck (the hall is full)
    mo = {"tasks": [{"name": "T0", "work": 2.0, "nf": True}, {"name": "T1", "work": 2.0, "nf": True}, {"name": "T2", "work": 9.0, "nf": True}], "links": [[0, 1, "FS"]],
          "components": [{"name": "C0", "tasks": [0, 1], "space": 1.0}, {"name": "C2", "tasks": [2], "space": 1.0}],
          "workplaces": [{"name": "WP0", "cap": 1.0, "targets": [1, 2], "facilities": [{"name": "F1", "skills": {"T1": 1.0}, "cost": 1.0}, {"name": "F2", "skills": {"T2": 1.0, "T1": 1.0}, "cost": 1.0}]},
                         {"name": "WP1", "cap": 1.0, "targets": [0], "facilities": [{"name": "F0", "skills": {"T0": 1.0}, "cost": 1.0}]}],
          "teams": [{"name": "TM0", "targets": [0, 1, 2], "workers": [{"name": "W0", "skills": {"T0": 1.0, "T1": 1.0}, "fskills": {"F0": 1.0, "F1": 1.0, "F2": 1.0}, "cost": 1.0},
                                                                     {"name": "W1", "skills": {"T2": 1.0}, "fskills": {"F2": 1.0}, "cost": 1.0}]}]}
    mo2 = copy.deepcopy(mo)
    mo2["workplaces"][1]["facilities"].append(mo2["workplaces"][0]["facilities"].pop(0))
    out.append((mo, mo2, "move-facility-out"))
    # the availability helper called by hand at a stop for the current step, and only then that step entered into a free worker's calendar
    for k in (1, 2):
        bh = {"tasks": [{"name": "T0", "work": float(k)}, {"name": "T1", "work": 2.0}], "links": [[0, 1, "FS"]],
              "teams": [{"name": "TM0", "targets": [0, 1], "workers": [{"name": "W0", "skills": {"T0": 1.0}, "cost": 1.0}, {"name": "W1", "skills": {"T1": 1.0}, "cost": 1.0}, {"name": "W2", "skills": {"T1": 0.5}, "cost": 1.0}]}]}
        bh2 = copy.deepcopy(bh)
        bh2["teams"][0]["workers"][1]["absence"] = [k]
        out.append((bh, bh2, "byhand-check-then-absent-%d" % k))
    # a new top-level component (with a task of its own) appended to the product at a stop; it needs the one-slot shop after C0
    ac = {"tasks": [{"name": "T0", "work": 3.0, "nf": True}, {"name": "T1", "work": 2.0, "nf": True}], "links": [], "components": [{"name": "C0", "tasks": [0], "space": 1.0}, {"name": "C1", "tasks": [1], "space": 1.0}],
          "workplaces": [{"name": "WP0", "cap": 1.0, "targets": [0, 1], "facilities": [{"name": "F0", "skills": {"T0": 1.0, "T1": 1.0, "T2": 1.0}, "cost": 1.0}]}],
          "teams": [{"name": "TM0", "targets": [0, 1], "workers": [{"name": "W0", "skills": {"T0": 1.0, "T1": 1.0, "T2": 1.0}, "fskills": {"F0": 1.0}, "cost": 1.0}]}]}
    ac2 = copy.deepcopy(ac)
    ac2["tasks"].append({"name": "T2", "work": 1.0, "nf": True})
    ac2["components"].append({"name": "CN", "tasks": [2], "space": 1.0})
    ac2["workplaces"][0]["targets"] = [0, 1, 2]
    ac2["teams"][0]["targets"] = [0, 1, 2]
    out.append((ac, ac2, "add-component"))
    # a running machine task taken off its workplace's list at a stop (only a finished task stays listed); the machine finishes what it holds
    ut = {"tasks": [{"name": "T0", "work": 6.0, "nf": True}, {"name": "T1", "work": 1.0, "nf": True}], "links": [], "components": [{"name": "C0", "tasks": [0], "space": 1.0}, {"name": "C1", "tasks": [1], "space": 1.0}],
          "workplaces": [{"name": "WP0", "cap": 2.0, "targets": [0, 1], "facilities": [{"name": "F0", "skills": {"T0": 1.0}, "cost": 7.0}, {"name": "F1", "skills": {"T1": 1.0}, "cost": 3.0}]}],
          "teams": [{"name": "TM0", "targets": [0, 1], "workers": [{"name": "W0", "skills": {"T0": 1.0}, "fskills": {"F0": 1.0}, "cost": 1.0}, {"name": "W1", "skills": {"T1": 1.0}, "fskills": {"F1": 1.0}, "cost": 2.0}]}]}
    ut2 = copy.deepcopy(ut)
    ut2["workplaces"][0]["targets"] = [1]
    out.append((ut, ut2, "untarget-running-task"))
    # rates agreed at a stop: nobody in the team / workplace is paid at the start; the second task's worker and machine get their rates before that task begins
    rz = {"tasks": [{"name": "T0", "work": 4.0}, {"name": "T1", "work": 3.0, "nf": True}], "links": [[0, 1, "FS"]], "components": [{"name": "C0", "tasks": [1]}],
          "workplaces": [{"name": "WP0", "cap": 1.0, "targets": [1], "facilities": [{"name": "F0", "skills": {"T1": 1.0}, "cost": 0.0}]}],
          "teams": [{"name": "TM0", "targets": [0, 1], "workers": [{"name": "W0", "skills": {"T0": 1.0}, "cost": 0.0}, {"name": "W1", "skills": {"T1": 1.0}, "fskills": {"F0": 1.0}, "cost": 0.0}]}]}
    rz2 = copy.deepcopy(rz)
    rz2["teams"][0]["workers"][1]["cost"] = 8.0
    rz2["workplaces"][0]["facilities"][0]["cost"] = 5.0
    out.append((rz, rz2, "set-rates"))
    # a placed block that turns out bulkier than planned: its size is corrected at a stop; the next part no longer fits beside it and has to go to the other hall
    gr = {"tasks": [{"name": "T0", "work": 9.0, "nf": True}, {"name": "T1", "work": 2.0, "nf": True, "wprule": "FSS"}, {"name": "T2", "work": 4.0}], "links": [[2, 1, "FS"]],
          "components": [{"name": "C0", "tasks": [0], "space": 1.0}, {"name": "C1", "tasks": [1], "space": 2.0}],
          "workplaces": [{"name": "WP0", "cap": 5.0, "targets": [0, 1], "facilities": [{"name": "F0", "skills": {"T0": 1.0}, "cost": 1.0}, {"name": "F1", "skills": {"T1": 1.0}, "cost": 1.0}]},
                         {"name": "WP1", "cap": 3.0, "targets": [1], "facilities": [{"name": "F2", "skills": {"T1": 1.0}, "cost": 1.0}]}],
          "teams": [{"name": "TM0", "targets": [0, 1, 2], "workers": [{"name": "W0", "skills": {"T0": 1.0}, "fskills": {"F0": 1.0}, "cost": 1.0},
                                                                     {"name": "W1", "skills": {"T1": 1.0, "T2": 1.0}, "fskills": {"F1": 1.0, "F2": 1.0}, "cost": 1.0}]}]}
    gr2 = copy.deepcopy(gr)
    gr2["components"][0]["space"] = 3.5
    out.append((gr, gr2, "resize-placed-component"))
    return out


def apply_edit(m, name):
    if name == "team-add-target":
        m.byname["TM0"].append_targeted_task(m.byname["T2"])
    elif name == "team-remove-target":
        m.byname["TM1"].targeted_task_list.remove(m.byname["T2"])
        m.byname["T2"].allocated_team_list.remove(m.byname["TM1"])
    elif name == "team-drop-target":
        m.byname["TM1"].targeted_task_list.remove(m.byname["T2"])
    elif name == "worker-skill":
        m.byname["W0"].workamount_skill_mean_map["T0"] = 2.0
    elif name == "task-work":
        m.byname["T2"].default_work_amount = 1.0
    elif name == "worker-solo":
        m.byname["W1"].solo_working = True
    elif name == "worker-absence-inplace":
        m.byname["W0"].absence_time_list.append(1)
    elif name == "worker-absence-move":
        m.byname["W0"].absence_time_list[0] = 1
    elif name == "worker-absence-append-3":
        m.byname["W0"].absence_time_list.append(3)
    elif name == "facility-absence-inplace":
        lst = m.byname["F0"].absence_time_list
        lst += [2, 3]
    elif name == "team-replace":
        from pDESy.model.base_team import BaseTeam

        old = m.byname["TM0"]
        new = BaseTeam(name=old.name, ID=old.ID)
        for w in list(old.worker_list):
            new.add_worker(w)
        new.append_targeted_task(m.byname["T2"])
        for t in m.tasks:
            if old in t.allocated_team_list:
                t.allocated_team_list.remove(old)
        org = m.project.organization
        org.team_list[org.team_list.index(old)] = new
        m.teams[m.teams.index(old)] = new
        m.byname["TM0"] = new
    elif name == "restaff":
        w1, w0 = m.byname["W1"], m.byname["W0"]
        m.byname["TM1"].worker_list.remove(w1)
        m.byname["TM0"].worker_list.remove(w0)
        m.byname["TM1"].add_worker(w0)
    elif name == "add-task":
        from . import spec as S

        t = type(m.byname["T0"])("T2", ID="T2", default_work_amount=2.0)  # same class as the other tasks (harness-hashed or plain)
        t._vh = 50
        t.append_input_task(m.byname["T0"])
        m.project.workflow.append_child_task(t)
        m.byname["TM0"].append_targeted_task(t)
        m.byname["CE"].append_targeted_task(t)
        m.tasks.append(t)
        m.byname["T2"] = t
    elif name == "move-facility":
        f = m.byname["F1"]
        m.byname["WP1"].facility_list.remove(f)
        m.byname["WP0"].add_facility(f)
    elif name == "move-worker":
        w = m.byname["W1"]
        m.byname["TM1"].worker_list.remove(w)
        m.byname["TM0"].add_worker(w)
    elif name in ("add-ff-link", "add-sf-link"):
        from pDESy.model.base_task import BaseTaskDependency

        m.byname["T2"].append_input_task(m.byname["T0"], task_dependency_mode=BaseTaskDependency.FF if name == "add-ff-link" else BaseTaskDependency.SF)
    elif name == "move-facility-in":
        f = m.byname["F1"]
        m.byname["WP1"].facility_list.remove(f)
        m.byname["WP0"].add_facility(f)
    elif name == "move-facility-out":
        f = m.byname["F1"]
        m.byname["WP0"].facility_list.remove(f)
        m.byname["WP1"].add_facility(f)
    elif name.startswith("byhand-check-then-absent-"):
        k = int(name.rsplit("-", 1)[1])
        m.project.organization.check_update_state_from_absence_time_list(m.project.time)  # (a user looking at who is available right now)
        m.byname["W1"].absence_time_list.append(k)
    elif name == "add-component":
        t = type(m.byname["T0"])("T2", ID="T2", default_work_amount=1.0, need_facility=True)
        t._vh = 50
        c = type(m.byname["C0"])("CN", ID="CN", space_size=1.0)
        c._vh = 150
        c.append_targeted_task(t)
        m.project.workflow.append_child_task(t)
        m.project.product.append_child_component(c)
        m.byname["WP0"].append_targeted_task(t)
        m.byname["TM0"].append_targeted_task(t)
        m.tasks.append(t)
        m.components.append(c)
        m.byname["T2"] = t
        m.byname["CN"] = c
        # (the newcomers get one placeholder entry per step already simulated, as a user does who wants every log to start at step 0)
        k_ = m.project.time
        t.state_record_list = [t.state] * k_
        t.remaining_work_amount_record_list = [t.remaining_work_amount] * k_
        t.allocated_worker_id_record = [[] for _ in range(k_)]
        t.allocated_facility_id_record = [[] for _ in range(k_)]
        c.state_record_list = [c.state] * k_
        c.placed_workplace_id_record = [None] * k_
    elif name == "untarget-running-task":
        m.byname["WP0"].targeted_task_list.remove(m.byname["T0"])
        m.byname["T0"].allocated_workplace_list.remove(m.byname["WP0"])
    elif name == "resize-placed-component":
        m.byname["C0"].space_size = 3.5
    elif name == "set-rates":
        m.byname["W1"].cost_per_time = 8.0
        m.byname["F0"].cost_per_time = 5.0
    elif name == "add-link":
        m.byname["T2"].append_input_task(m.byname["T0"])


