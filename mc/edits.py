"""Edits of a live model between two runs on one object, each with the spec of the model it turns the base into."""


def edit_cases():
    """(spec before, spec after, edit applied to the live objects) - the model is edited between two runs on one object"""
    import copy

    out = []
    for links in ([], [[0, 1, "FS"]], [[0, 2, "SS"]]):
        base = {"tasks": [{"name": "T0", "work": 2.0}, {"name": "T1", "work": 1.0}, {"name": "T2", "work": 2.0}], "links": links,
                "teams": [{"name": "TM0", "targets": [0, 1], "workers": [{"name": "W0", "skills": {"T0": 1.0, "T1": 1.0, "T2": 1.0}, "cost": 1.0}]},
                          {"name": "TM1", "targets": [1, 2], "workers": [{"name": "W1", "skills": {"T0": 1.0, "T1": 1.0, "T2": 1.0}, "cost": 2.0}]}]}
        b1 = copy.deepcopy(base)
        b1["teams"][0]["targets"] = [0, 1, 2]
        out.append((base, b1, "team-add-target"))
        long_a = copy.deepcopy(base)
        long_a["tasks"][2]["work"] = 6.0  # T2 is still in progress when TM0's worker has run out of work and is refused for it
        long_b = copy.deepcopy(long_a)
        long_b["teams"][0]["targets"] = [0, 1, 2]
        out.append((long_a, long_b, "team-add-target"))
        b2 = copy.deepcopy(base)
        b2["teams"][1]["targets"] = [1]
        out.append((base, b2, "team-remove-target"))
        b3 = copy.deepcopy(base)
        b3["teams"][0]["workers"][0]["skills"]["T0"] = 2.0
        out.append((base, b3, "worker-skill"))
        b4 = copy.deepcopy(base)
        b4["tasks"][2]["work"] = 1.0
        out.append((base, b4, "task-work"))
        b5 = copy.deepcopy(base)
        b5["teams"][1]["workers"][0]["solo"] = True
        out.append((base, b5, "worker-solo"))
        b6 = copy.deepcopy(base)
        b6["teams"][0]["workers"][0]["absence"] = [1]
        out.append((base, b6, "worker-absence-inplace"))
        b7 = copy.deepcopy(base)
        b7["teams"][0]["workers"].append(b7["teams"][1]["workers"].pop(0))
        out.append((base, b7, "move-worker"))
        b9a, b9b = copy.deepcopy(base), copy.deepcopy(base)
        b9a["teams"][0]["workers"][0]["absence"] = [0]
        b9b["teams"][0]["workers"][0]["absence"] = [1]
        out.append((b9a, b9b, "worker-absence-move"))  # a day off moved: same list object, same length, other step
        b10 = copy.deepcopy(base)
        b10["teams"][0]["workers"][0]["absence"] = [3]
        out.append((base, b10, "worker-absence-append-3"))  # used with runs stopped before step 3 and continued
        b11 = copy.deepcopy(base)
        b11["teams"][0]["targets"] = [2]
        out.append((base, b11, "team-replace"))  # team TM0 dissolved and founded again under the same ID with another assignment
        if not any(j == 2 for _, j, _ in links):
            b8 = copy.deepcopy(base)
            b8["links"] = list(links) + [[0, 2, "FS"]]
            out.append((base, b8, "add-link"))
    # a facility model: the machine's own absence list extended in place between two runs
    fb = {"tasks": [{"name": "T0", "work": 6.0, "nf": True}, {"name": "T1", "work": 2.0}], "links": [], "components": [{"name": "C0", "tasks": [0]}],
          "workplaces": [{"name": "WP0", "cap": 1.0, "targets": [0], "facilities": [{"name": "F0", "skills": {"T0": 1.0}, "cost": 2.0}]}],
          "teams": [{"name": "TM0", "targets": [0, 1], "workers": [{"name": "W0", "skills": {"T0": 1.0}, "fskills": {"F0": 1.0}, "cost": 1.0}, {"name": "W1", "skills": {"T1": 1.0}, "cost": 1.0}]}]}
    fa = copy.deepcopy(fb)
    fa["workplaces"][0]["facilities"][0]["absence"] = [2, 3]
    out.append((fb, fa, "facility-absence-inplace"))
    return out


def apply_edit(m, name):
    if name == "team-add-target":
        m.byname["TM0"].append_targeted_task(m.byname["T2"])
    elif name == "team-remove-target":
        m.byname["TM1"].targeted_task_list.remove(m.byname["T2"])
        m.byname["T2"].allocated_team_list.remove(m.byname["TM1"])
    elif name == "worker-skill":
        m.byname["W0"].workamount_skill_mean_map["T0"] = 2.0
    elif name == "task-work":
        m.byname["T2"].default_work_amount = 1.0
    elif name == "worker-solo":
        m.byname["W1"].solo_working = True
    elif name == "worker-absence-inplace":
        m.byname["W0"].absence_time_list.append(1)
    elif name == "worker-absence-move":
        m.byname["W0"].absence_time_list[0] = 1
    elif name == "worker-absence-append-3":
        m.byname["W0"].absence_time_list.append(3)
    elif name == "facility-absence-inplace":
        lst = m.byname["F0"].absence_time_list
        lst += [2, 3]
    elif name == "team-replace":
        from pDESy.model.base_team import BaseTeam

        old = m.byname["TM0"]
        new = BaseTeam(name=old.name, ID=old.ID)
        for w in list(old.worker_list):
            new.add_worker(w)
        new.append_targeted_task(m.byname["T2"])
        for t in m.tasks:
            if old in t.allocated_team_list:
                t.allocated_team_list.remove(old)
        org = m.project.organization
        org.team_list[org.team_list.index(old)] = new
        m.teams[m.teams.index(old)] = new
        m.byname["TM0"] = new
    elif name == "move-worker":
        w = m.byname["W1"]
        m.byname["TM1"].worker_list.remove(w)
        m.byname["TM0"].add_worker(w)
    elif name == "add-link":
        m.byname["T2"].append_input_task(m.byname["T0"])


