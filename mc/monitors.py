"""Monitors: each restates one property on the observed trace / logs of ONE execution.

A monitor is  f(ex, info, col) -> list of violation dicts.  It evaluates the *statement*, using the
spec and the absence answers as oracle inputs; it never calls library predicates.
"""
from . import spec as S
from .info import EPS, Info, absent_at, project_absent

TOL = 1e-9
RANK = {S.T_NONE: 0, S.T_READY: 1, S.T_WORKING: 2, S.T_FINISHED: 3}
CRANK = {S.C_NONE: 0, S.C_READY: 1, S.C_WORKING: 2, S.C_FINISHED: 3}



def absn_of(ex):
    """the project-wide absence steps of the whole result in absolute time: the list given to the observed call, and - for a run that continues an earlier part
    made with ANOTHER list (opts first_absence) - that other list for the steps before the stop"""
    a2 = set(ex.opts.get("absence") or ())
    if ex.opts.get("first_absence") is None or ex.opts.get("resume_from") is None:
        return a2
    k = ex.opts["resume_from"]
    return set(a for a in ex.opts["first_absence"] if a < k) | set(a for a in a2 if a >= k)

def V(pid, sig, ex, detail, kind="sim"):
    opts = {k: v for k, v in ex.opts.items() if k not in ("phases", "want_canon")}
    return {"property": pid, "sig": sig, "kind": kind, "spec": ex.spec, "opts": opts, "detail": detail}


def res_absent(ex, info, name, t):
    o = ex.opts.get("res_absence") or {}
    if name in o:
        return t in o[name]
    sp = info.workers.get(name) or info.facilities.get(name) or {}
    if sp.get("absence_after") is not None:
        return t in sp["absence_after"]
    if sp.get("absence_late") is not None:
        return t in sp["absence_late"]
    return t in sp.get("absence", ())


def started(state):
    return state in (S.T_WORKING, S.T_FINISHED)


# ------------------------------------------------------------------------------------------ C01
def mon_c01(ex, info, col):
    out = []
    first_out_of_none = {}
    first_finished = {}
    last = {}
    exempt = set(tn for tn in info.tnames if info.prefinished(tn))
    for t, ph, working, sn in ex.trace:
        for tn in info.tnames:
            if tn in exempt:
                continue
            st = sn["tasks"][tn][0]
            col.checks["c01.state"] += 1
            if st not in RANK:
                out.append(V("C01", "C01:unknown-task-state", ex, {"task": tn, "t": t, "phase": ph, "state": st}))
                continue
            if tn in last and RANK[st] < RANK[last[tn]]:
                out.append(
                    V("C01", "C01:live-state-went-backwards", ex,
                      {"task": tn, "t": t, "phase": ph, "from": S.TSTATE_NAME[last[tn]], "to": S.TSTATE_NAME[st]})
                )
            last[tn] = st
            if st != S.T_NONE and tn not in first_out_of_none:
                first_out_of_none[tn] = (t, ph)
                if info.preds[tn]:
                    col.nontrivial.add(hash((info.key, "start", tn, tuple(sn["tasks"][pn][0] for pn, _ in info.preds[tn]))))
                for pn, kind in info.preds[tn]:
                    ps = sn["tasks"][pn][0]
                    col.checks["c01.start-gate"] += 1
                    if kind == "FS" and ps != S.T_FINISHED:
                        out.append(V("C01", "C01:left-NONE-before-FS-pred-finished", ex,
                                     {"task": tn, "pred": pn, "t": t, "phase": ph, "pred_state": S.TSTATE_NAME.get(ps, ps)}))
                    if kind == "SS" and not started(ps):
                        out.append(V("C01", "C01:left-NONE-before-SS-pred-started", ex,
                                     {"task": tn, "pred": pn, "t": t, "phase": ph, "pred_state": S.TSTATE_NAME.get(ps, ps)}))
            if st == S.T_FINISHED and tn not in first_finished:
                first_finished[tn] = (t, ph)
                if info.preds[tn]:
                    col.nontrivial.add(hash((info.key, "finish", tn, tuple(sn["tasks"][pn][0] for pn, _ in info.preds[tn]))))
                for pn, kind in info.preds[tn]:
                    ps = sn["tasks"][pn][0]
                    col.checks["c01.finish-gate"] += 1
                    if kind == "FF" and ps != S.T_FINISHED:
                        out.append(V("C01", "C01:FINISHED-before-FF-pred-finished", ex,
                                     {"task": tn, "pred": pn, "t": t, "phase": ph, "pred_state": S.TSTATE_NAME.get(ps, ps)}))
                    if kind == "SF" and not started(ps):
                        out.append(V("C01", "C01:FINISHED-before-SF-pred-started", ex,
                                     {"task": tn, "pred": pn, "t": t, "phase": ph, "pred_state": S.TSTATE_NAME.get(ps, ps)}))
    # the logs: only WORKING -> READY at a project-wide absence step may go backwards
    absn = absn_of(ex)
    for tn in info.tnames:
        log = [int(s) for s in ex.m.byname[tn].state_record_list]
        if tn in exempt:
            col.checks["c01.exempt"] += 1
            if any(s != S.T_FINISHED for s in log):
                out.append(V("C01", "C01:prefinished-task-not-FINISHED-from-start", ex, {"task": tn, "log": log}))
            continue
        for k in range(max(1, ex.log_start + 1), len(log)):
            col.checks["c01.log"] += 1
            a, b = log[k - 1], log[k]
            if a not in RANK or b not in RANK:
                continue
            if RANK[b] < RANK[a]:
                if a == S.T_WORKING and b == S.T_READY and k in absn:
                    continue
                out.append(V("C01", "C01:logged-state-went-backwards", ex, {"task": tn, "k": k, "log": log}))
    return out


# ------------------------------------------------------------------------------------------ C02
def contribution(ex, info, tn, t, working, sn):
    """Expected decrease of remaining work of task tn during the perform part of step t."""
    st, rem, ws, fs = sn["tasks"][tn][:4]
    if st != S.T_WORKING:
        return 0.0
    if info.is_auto(tn):
        if working or ex.opts.get("auto_abs"):
            return info.unit(tn)
        return 0.0
    if not working:
        return 0.0
    c = 0.0
    if info.needs_facility(tn):
        for i in range(min(len(ws), len(fs))):
            w, f = ws[i], fs[i]
            wv = info.wskill(w, tn)
            fv = info.fskill(f, tn)
            if not wv > EPS or res_absent(ex, info, w, t):
                wv = 0.0
            if not fv > EPS or res_absent(ex, info, f, t):
                fv = 0.0
            c += wv * fv
    else:
        for w in ws:
            wv = info.wskill(w, tn)
            if wv > EPS and not res_absent(ex, info, w, t):
                c += wv
    return c


def finish_deps_hold(info, tn, sn):
    for pn, kind in info.preds[tn]:
        ps = sn["tasks"][pn][0]
        if kind == "FF" and ps != S.T_FINISHED:
            return False
        if kind == "SF" and not started(ps):
            return False
    return True


def mon_c02(ex, info, col):
    out = []
    if ex.opts.get("backward"):
        info = info.reversed_view()  # the observed run is the inner run of backward_simulate: links are followed from successor to predecessor
    bs = ex.by_step()
    prev_rec = None
    for t in sorted(bs):
        phs = bs[t]
        for tn in info.tnames:
            pre = info.prefinished(tn)
            if "updated" in phs and prev_rec is not None:
                a = prev_rec["tasks"][tn]
                b = phs["updated"][1]["tasks"][tn]
                col.checks["c02.update"] += 1
                if abs(a[1] - b[1]) > TOL:
                    clamp = b[0] == S.T_FINISHED and a[0] != S.T_FINISHED and a[1] < EPS and b[1] == 0.0
                    if not clamp:
                        out.append(V("C02", "C02:remaining-changed-outside-perform(update)", ex,
                                     {"task": tn, "t": t, "before": a[1], "after": b[1]}))
                # finish timing
                if not pre:
                    if b[0] == S.T_FINISHED and a[0] != S.T_FINISHED:
                        col.checks["c02.finish"] += 1
                        if not a[1] < EPS:
                            out.append(V("C02", "C02:FINISHED-with-work-remaining", ex,
                                         {"task": tn, "t": t, "remaining_before": a[1]}))
                        if b[1] != 0.0:
                            out.append(V("C02", "C02:FINISHED-remaining-not-reported-0", ex,
                                         {"task": tn, "t": t, "remaining": b[1]}))
                        # "dependencies permitting": judged by the links as they were DECLARED (finish-to-finish / start-to-finish inputs), on the state after this update
                        if not finish_deps_hold(info, tn, phs["updated"][1]):
                            out.append(V("C02", "C02:FINISHED-although-a-declared-finish-dependency-does-not-permit-it", ex,
                                         {"task": tn, "t": t, "preds": [(pn, k, S.TSTATE_NAME.get(phs["updated"][1]["tasks"][pn][0])) for pn, k in info.preds[tn]]}))
                    if a[0] == S.T_WORKING and a[1] < EPS and b[0] != S.T_FINISHED:
                        col.checks["c02.finish-next-step"] += 1
                        # judged on the state after this update: finishing is propagated along FF/SF links within one update
                        if finish_deps_hold(info, tn, phs["updated"][1]):
                            out.append(V("C02", "C02:not-FINISHED-at-first-step-after-zero", ex,
                                         {"task": tn, "t": t, "state": S.TSTATE_NAME.get(b[0], b[0]),
                                          "preds": [(pn, k, S.TSTATE_NAME.get(phs["updated"][1]["tasks"][pn][0])) for pn, k in info.preds[tn]]}))
            if "updated" in phs and "allocated" in phs:
                a = phs["updated"][1]["tasks"][tn]
                b = phs["allocated"][1]["tasks"][tn]
                col.checks["c02.allocate"] += 1
                if abs(a[1] - b[1]) > TOL:
                    out.append(V("C02", "C02:remaining-changed-outside-perform(allocate)", ex,
                                 {"task": tn, "t": t, "before": a[1], "after": b[1]}))
            if "allocated" in phs and "performed" in phs:
                working, sa = phs["allocated"]
                a = sa["tasks"][tn]
                b = phs["performed"][1]["tasks"][tn]
                c = contribution(ex, info, tn, t, working, sa)
                col.checks["c02.perform"] += 1
                if c > 0:
                    col.nontrivial.add(hash((info.key, tn, a[0], round(a[1], 6), a[2], a[3], c, working)))
                if abs((a[1] - b[1]) - c) > TOL:
                    sig = "C02:wrong-progress" if a[0] == S.T_WORKING else "C02:progress-while-not-WORKING"
                    out.append(V("C02", sig, ex, {"task": tn, "t": t, "working_step": working, "before": a[1], "after": b[1],
                                                  "expected_decrease": c, "workers": a[2], "facilities": a[3]}))
            if "performed" in phs and "recorded" in phs:
                a = phs["performed"][1]["tasks"][tn]
                b = phs["recorded"][1]["tasks"][tn]
                if abs(a[1] - b[1]) > TOL:
                    out.append(V("C02", "C02:remaining-changed-outside-perform(record)", ex,
                                 {"task": tn, "t": t, "before": a[1], "after": b[1]}))
        if "recorded" in phs:
            prev_rec = phs["recorded"][1]
    # logs after remove_absence_time_list(): what is left are working steps, so every logged WORKING step shows exactly the progress of its logged allocation
    # (models without personal calendars; a backward result with reversed logs is read in the order the run produced it)
    # ... and likewise for a result that was looked at through the read-only helpers at a stop (printing and chart helpers must leave the records alone);
    # there the project-wide absence steps are still in the logs and are skipped (a WORKING task is displayed READY in them)
    looked = bool(ex.opts.get("pause_queries")) and not ex.opts.get("post_remove") and not ex.opts.get("backward") and not ex.opts.get("unit_time")
    if (ex.opts.get("post_remove") or looked) and not ex.opts.get("post_insert") and not ex.opts.get("res_absence") and ex.error is None \
            and not any(r.get("absence") or r.get("absence_after") or r.get("absence_late") for r in list(info.workers.values()) + list(info.facilities.values())):
        flip = bool(ex.opts.get("backward")) and bool(ex.opts.get("rev", True))
        for tn in info.tnames:
            if info.is_auto(tn) and ex.opts.get("auto_abs"):
                continue  # (with the flag set an automatic task also progressed in the deleted steps: the surviving entries do not show that progress step by step)
            task = ex.m.byname[tn]
            sl = [int(s) for s in task.state_record_list]
            rl = list(task.remaining_work_amount_record_list)
            wl = [list(e or ()) for e in task.allocated_worker_id_record]
            fl = [list(e or ()) for e in task.allocated_facility_id_record]
            if flip:
                sl, rl, wl, fl = sl[::-1], rl[::-1], wl[::-1], fl[::-1]
            skip = absn_of(ex) if looked else set()
            for k in range(1, min(len(sl), len(rl), len(wl), len(fl))):
                if k in skip:
                    continue
                col.checks["c02.log-perform"] += 1
                if sl[k] == S.T_WORKING:
                    c = contribution(ex, info, tn, k, True, {"tasks": {tn: (S.T_WORKING, rl[k - 1], tuple(wl[k]), tuple(fl[k]))}})
                elif sl[k] in (S.T_NONE, S.T_READY):
                    c = 0.0
                else:
                    continue
                if abs((rl[k - 1] - rl[k]) - c) > TOL:
                    out.append(V("C02", "C02:logged-progress-differs-from-logged-allocation(%s)" % ("result-looked-at-through-read-only-helpers-at-a-stop" if looked else "after-removal-of-absence-steps"), ex,
                                 {"task": tn, "k": k, "state": S.TSTATE_NAME.get(sl[k]), "before": rl[k - 1], "after": rl[k], "expected_decrease": c, "workers": wl[k], "facilities": fl[k]}))
    # logs: remaining is reported 0 from the step a task is first logged FINISHED; initial value
    for tn in info.tnames:
        task = ex.m.byname[tn]
        sl = [int(s) for s in task.state_record_list]
        rl = list(task.remaining_work_amount_record_list)
        for k in range(min(len(sl), len(rl))):
            if sl[k] == S.T_FINISHED and not info.prefinished(tn):
                col.checks["c02.log-zero"] += 1
                if rl[k] != 0.0:
                    out.append(V("C02", "C02:logged-FINISHED-with-nonzero-remaining", ex, {"task": tn, "k": k, "remaining": rl[k]}))
        ts = info.tasks[tn]
        # (at a project-wide absence step a WORKING automatic task is *logged* READY and may have progressed: no claim there)
        if rl and sl and (sl[0] == S.T_NONE or (sl[0] == S.T_READY and 0 not in absn_of(ex))):
            exp = ts.get("work", 1.0) * (1.0 - (ts.get("progress") or 0.0))
            col.checks["c02.initial"] += 1
            if abs(rl[0] - exp) > TOL:
                out.append(V("C02", "C02:wrong-initial-remaining", ex, {"task": tn, "logged": rl[0], "expected": exp}))
    return out


# ------------------------------------------------------------------------------------------ C03
def mon_c03(ex, info, col):
    out = []
    for t, ph, working, sn in ex.trace:
        tasks = sn["tasks"]
        for kind, key, idx in (("worker", "workers", 2), ("facility", "facilities", 3)):
            for rn, (rstate, assigned) in sn[key].items():
                col.checks["c03.exclusive"] += 1
                if len(assigned) > 1:
                    out.append(V("C03", "C03:%s-assigned-to-several-tasks" % kind, ex, {"t": t, "phase": ph, kind: rn, "tasks": assigned}))
                for tn in assigned:
                    if tn not in tasks:
                        out.append(V("C03", "C03:%s-lists-a-task-that-is-not-part-of-its-project" % kind, ex, {"t": t, "phase": ph, kind: rn, "task": tn}))
                        continue
                    if rn not in tasks[tn][idx]:
                        out.append(V("C03", "C03:%s-lists-task-but-task-does-not-list-it" % kind, ex,
                                     {"t": t, "phase": ph, kind: rn, "task": tn, "task_side": tasks[tn][idx]}))
                    if ph == "updated" and tasks[tn][0] == S.T_FINISHED:
                        out.append(V("C03", "C03:%s-still-assigned-to-FINISHED-task" % kind, ex, {"t": t, kind: rn, "task": tn}))
                if ph in ("allocated", "performed", "recorded"):
                    absent = (working is False) or res_absent(ex, info, rn, t)
                    want = bool(assigned) and not absent
                    col.checks["c03.resource-state"] += 1
                    if (rstate == S.R_WORKING) != want:
                        out.append(V("C03", "C03:%s-WORKING-iff-holding-and-present-broken" % kind, ex,
                                     {"t": t, "phase": ph, kind: rn, "state": rstate, "assigned": assigned, "absent": absent}))
            for tn, tv in tasks.items():
                held = tv[idx]
                if len(set(held)) != len(held):
                    out.append(V("C03", "C03:%s-listed-twice-on-task" % kind, ex, {"t": t, "phase": ph, "task": tn, "held": held}))
                for rn in held:
                    col.checks["c03.two-way"] += 1
                    if rn not in sn[key]:
                        out.append(V("C03", "C03:task-holds-a-%s-that-is-not-part-of-its-project" % kind, ex, {"t": t, "phase": ph, "task": tn, kind: rn}))
                        continue
                    if tn not in sn[key][rn][1]:
                        out.append(V("C03", "C03:task-lists-%s-but-%s-does-not-list-task" % (kind, kind), ex,
                                     {"t": t, "phase": ph, "task": tn, kind: rn, "resource_side": sn[key][rn][1]}))
                if held:
                    if tv[0] not in (S.T_READY, S.T_WORKING):
                        sig = "C03:FINISHED-task-holds-resources" if tv[0] == S.T_FINISHED else "C03:non-READY/WORKING-task-holds-resources"
                        out.append(V("C03", sig, ex, {"t": t, "phase": ph, "task": tn, "state": S.TSTATE_NAME.get(tv[0]), "held": held}))
        if ph == "allocated":
            free = [w for w, (s, a) in sn["workers"].items() if not a]
            claim = [tn for tn, tv in tasks.items() if tv[0] in (S.T_READY, S.T_WORKING) and not info.is_auto(tn)]
            if len(claim) > len(free) + sum(1 for w, (s, a) in sn["workers"].items() if a):
                col.nontrivial.add(hash((info.key, "contention", tuple(sorted((k, v[0], v[2], v[3]) for k, v in tasks.items())))))
    # logs
    p = ex.m
    absn = absn_of(ex)
    n = len(ex.project.cost_list)
    for kind, names, tkey in (("worker", info.workers, "allocated_worker_id_record"), ("facility", info.facilities, "allocated_facility_id_record")):
        for rn in names:
            r = p.byname[rn]
            for k in range(len(r.state_record_list)):
                col.checks["c03.log"] += 1
                a = r.assigned_task_id_record[k] if k < len(r.assigned_task_id_record) else None
                if a is None:
                    continue
                if len(a) > 1:
                    out.append(V("C03", "C03:%s-logged-with-several-tasks" % kind, ex, {kind: rn, "k": k, "tasks": a}))
                absent = k in absn or res_absent(ex, info, rn, k)
                want = bool(a) and not absent
                if (int(r.state_record_list[k]) == S.R_WORKING) != want:
                    out.append(V("C03", "C03:logged-%s-WORKING-iff-holding-and-present-broken" % kind, ex,
                                 {kind: rn, "k": k, "state": int(r.state_record_list[k]), "assigned": a, "absent": absent}))
                for tn in a:
                    if tn not in info.tasks:
                        out.append(V("C03", "C03:%s-logged-with-a-task-that-is-not-part-of-its-project" % kind, ex, {kind: rn, "k": k, "task": tn}))
                        continue
                    rec = getattr(p.byname[tn], tkey)
                    if k < len(rec) and rec[k] is not None and rn not in rec[k]:
                        out.append(V("C03", "C03:logs-disagree-%s-lists-task" % kind, ex, {kind: rn, "k": k, "task": tn, "task_side": rec[k]}))
        for tn in info.tnames:
            task = p.byname[tn]
            rec = getattr(task, tkey)
            for k in range(len(rec)):
                if rec[k] is None:
                    continue
                for rn in rec[k]:
                    if rn not in names:
                        out.append(V("C03", "C03:task-logged-with-a-%s-that-is-not-part-of-its-project" % kind, ex, {"task": tn, "k": k, kind: rn}))
                        continue
                    r = p.byname[rn]
                    if k < len(r.assigned_task_id_record) and r.assigned_task_id_record[k] is not None and tn not in r.assigned_task_id_record[k]:
                        out.append(V("C03", "C03:logs-disagree-task-lists-%s" % kind, ex, {"task": tn, "k": k, kind: rn}))
                if rec[k] and k < len(task.state_record_list) and int(task.state_record_list[k]) not in (S.T_READY, S.T_WORKING):
                    out.append(V("C03", "C03:logged-non-READY/WORKING-task-holds-resources", ex,
                                 {"task": tn, "k": k, "state": int(task.state_record_list[k]), "held": rec[k]}))
    return out


# ------------------------------------------------------------------------------------------ C04
def mon_c04(ex, info, col):
    out = []
    bs = ex.by_step()
    for t in sorted(bs):
        phs = bs[t]
        for ph, (working, sn) in phs.items():
            # solo resources never share a task; facility tasks hold pairs
            for tn, tv in sn["tasks"].items():
                ws, fs = tv[2], tv[3]
                col.checks["c04.solo"] += 1
                if len(ws) > 1 and any(info.is_solo(w) for w in ws):
                    out.append(V("C04", "C04:solo-worker-combined-with-another", ex, {"t": t, "phase": ph, "task": tn, "workers": ws}))
                if len(fs) > 1 and any(info.is_solo(f) for f in fs):
                    out.append(V("C04", "C04:solo-facility-combined-with-another", ex, {"t": t, "phase": ph, "task": tn, "facilities": fs}))
                if info.needs_facility(tn):
                    if len(ws) != len(fs):
                        out.append(V("C04", "C04:facility-task-not-allocated-in-pairs", ex, {"t": t, "phase": ph, "task": tn, "workers": ws, "facilities": fs}))
                elif fs:
                    out.append(V("C04", "C04:facility-on-task-that-needs-none", ex, {"t": t, "phase": ph, "task": tn, "facilities": fs}))
        if "updated" not in phs or "allocated" not in phs:
            continue
        su = phs["updated"][1]
        working, sa = phs["allocated"]
        for tn in info.tnames:
            before_w, before_f = su["tasks"][tn][2], su["tasks"][tn][3]
            after_w, after_f = sa["tasks"][tn][2], sa["tasks"][tn][3]
            new_w = [w for w in after_w if w not in before_w]
            for w in new_w:
                col.checks["c04.worker"] += 1
                col.nontrivial.add(hash((info.key, w, tn, tuple(sorted(info.workers[w].get("skills", {}).items())), None if info.tasks[tn].get("fixw") is None else tuple(info.tasks[tn]["fixw"]))))
                why = info.worker_static_ok(w, tn)
                if why is None and (working is False or res_absent(ex, info, w, t)):
                    why = "absent at the moment of allocation"
                if why is not None:
                    out.append(V("C04", "C04:ineligible-worker-allocated:" + why, ex, {"t": t, "task": tn, "worker": w}))
            if info.needs_facility(tn):
                for i in range(min(len(after_w), len(after_f))):
                    w, f = after_w[i], after_f[i]
                    if i < len(before_w) and i < len(before_f) and before_w[i] == w and before_f[i] == f:
                        continue
                    col.checks["c04.pair"] += 1
                    why = info.facility_static_ok(f, tn)
                    if why is None and not info.can_operate(w, f):
                        why = "paired worker cannot operate the facility"
                    if why is not None:
                        out.append(V("C04", "C04:ineligible-pair-allocated:" + why, ex, {"t": t, "task": tn, "worker": w, "facility": f}))
    return out


# ------------------------------------------------------------------------------------------ C06
def start_deps_hold(info, tn, sn):
    for pn, kind in info.preds[tn]:
        ps = sn["tasks"][pn][0]
        if kind == "FS" and ps != S.T_FINISHED:
            return False
        if kind == "SS" and not started(ps):
            return False
    return True


def mon_c06(ex, info, col):
    out = []
    bs = ex.by_step()
    prev_rec = None
    for t in sorted(bs):
        phs = bs[t]
        if "updated" in phs:
            su = phs["updated"][1]
            for tn in info.tnames:
                tv = su["tasks"][tn]
                if tv[0] == S.T_NONE and not info.prefinished(tn):
                    col.checks["c06.none"] += 1
                    if start_deps_hold(info, tn, su):
                        preds = [(pn, k, S.TSTATE_NAME.get(su["tasks"][pn][0])) for pn, k in info.preds[tn]]
                        ss_fin = any(k == "SS" and su["tasks"][pn][0] == S.T_FINISHED for pn, k in info.preds[tn])
                        sig = "C06:NONE-although-start-deps-hold" + (":SS-pred-already-FINISHED" if ss_fin else "")
                        out.append(V("C06", sig, ex, {"task": tn, "t": t, "preds": preds}))
                if tv[0] == S.T_WORKING and tv[1] < EPS and prev_rec is not None and not info.prefinished(tn):
                    col.checks["c06.finish"] += 1
                    pv = prev_rec["tasks"][tn]
                    # remaining had reached zero by the end of the previous step; the finish dependencies are judged on
                    # the state after this update (finishing is propagated along FF/SF links within one update)
                    if pv[0] == S.T_WORKING and pv[1] < EPS and finish_deps_hold(info, tn, su):
                        sf_fin = any(k == "SF" and su["tasks"][pn][0] == S.T_FINISHED for pn, k in info.preds[tn])
                        sig = "C06:not-FINISHED-next-step-after-zero" + (":SF-pred-already-FINISHED" if sf_fin else "")
                        out.append(V("C06", sig, ex, {"task": tn, "t": t, "preds": [(pn, k, S.TSTATE_NAME.get(su["tasks"][pn][0])) for pn, k in info.preds[tn]]}))
        if "allocated" in phs:
            working, sa = phs["allocated"]
            if working:
                tasks = sa["tasks"]
                for tn in info.tnames:
                    tv = tasks[tn]
                    if info.is_auto(tn) and tn not in info.task_comp:
                        col.checks["c06.auto"] += 1
                        if tv[0] == S.T_READY:
                            out.append(V("C06", "C06:automatic-task-waits-in-READY", ex, {"task": tn, "t": t}))
                # idle = holds nothing although nothing in the DECLARED calendars keeps him away (a worker shown ABSENCE at a working step of his is idle, too)
                free_w = [w for w, (s, a) in sa["workers"].items() if s in (S.R_FREE, S.R_ABSENCE) and not a and not res_absent(ex, info, w, t)]
                for w in free_w:
                    for tn in info.tnames:
                        tv = tasks[tn]
                        if tv[0] not in (S.T_READY, S.T_WORKING) or info.is_auto(tn):
                            continue
                        if info.worker_static_ok(w, tn) is not None:
                            continue
                        ws, fs = tv[2], tv[3]
                        if not info.needs_facility(tn):
                            col.checks["c06.idle-worker"] += 1
                            if any(info.is_solo(x) for x in ws):
                                continue
                            if info.is_solo(w) and ws:
                                continue
                            out.append(V("C06", "C06:worker-FREE-while-eligible-task-waits", ex,
                                         {"t": t, "worker": w, "task": tn, "task_state": S.TSTATE_NAME.get(tv[0]), "task_workers": ws}))
                        else:
                            cn = info.task_comp.get(tn)
                            if cn is None or len(info.comp_tasks[cn]) != 1:
                                continue
                            wpn = sa["components"][cn][1]
                            if wpn is None:
                                # the (flat, single-task) component is nowhere although an assigned workplace has room for it and a FREE machine this
                                # worker can operate: it could be carried in and the pair could start (room and free resources only shrink during a step,
                                # so what is true after the allocation was true at the task's turn)
                                # (also claimed for the top of a nested product: the whole assembly must fit; parts below an assembly are left to C13)
                                if info.comp_parents.get(cn) or ws or fs:
                                    continue
                                _sz = lambda c: 1.0 if info.comps[c].get("space") is None else info.comps[c]["space"]  # noqa: E731
                                below, todo = [], list(info.comp_children.get(cn, []))
                                while todo:
                                    c_ = todo.pop()
                                    if c_ not in below:
                                        below.append(c_)
                                        todo += info.comp_children.get(c_, [])
                                size = _sz(cn) + sum(_sz(c_) for c_ in below)
                                for wp2 in sorted(info.wp):
                                    if tn not in info.wp_targets[wp2]:
                                        continue
                                    cap = info.wp[wp2].get("cap")
                                    cap = 1.0 if cap is None else (float("inf") if cap == "inf" else cap)
                                    # room is judged by where the components are (their own report), every one of them counted
                                    # (a top-level component all of whose tasks are FINISHED has been carried out by this step's update: it takes no room any more)
                                    used = sum(_sz(c) for c in info.comps if sa["components"][c][1] == wp2
                                               and not (not info.comp_parents.get(c) and info.comp_tasks.get(c) and all(tasks[x][0] == S.T_FINISHED for x in info.comp_tasks[c])))
                                    if not cap - used > size - 1e-8:
                                        continue
                                    for f in info.wp_facilities.get(wp2, []):
                                        fst, fa = sa["facilities"][f]
                                        if fst != S.R_FREE or fa or res_absent(ex, info, f, t):
                                            continue
                                        if info.facility_static_ok(f, tn) is not None or not info.can_operate(w, f):
                                            continue
                                        col.checks["c06.idle-pair-unplaced"] += 1
                                        out.append(V("C06", "C06:worker-facility-pair-FREE-while-the-component-could-be-carried-in", ex,
                                                     {"t": t, "worker": w, "facility": f, "task": tn, "component": cn, "workplace": wp2, "free_space": cap - used, "size": size}))
                                continue
                            if any(info.is_solo(x) for x in ws) or any(info.is_solo(x) for x in fs):
                                continue
                            if info.is_solo(w) and ws:
                                continue
                            for f in info.wp_facilities.get(wpn, []):
                                fst, fa = sa["facilities"][f]
                                if fst != S.R_FREE or fa or res_absent(ex, info, f, t):
                                    continue
                                if info.facility_static_ok(f, tn) is not None or not info.can_operate(w, f):
                                    continue
                                if info.is_solo(f) and fs:
                                    continue
                                col.checks["c06.idle-pair"] += 1
                                out.append(V("C06", "C06:worker-facility-pair-FREE-while-eligible-task-waits", ex,
                                             {"t": t, "worker": w, "facility": f, "task": tn, "workplace": wpn}))
                ncl = sum(1 for tn in info.tnames if tasks[tn][0] in (S.T_READY, S.T_WORKING) and not info.is_auto(tn))
                if ncl:
                    col.nontrivial.add(hash((info.key, "alloc", tuple(sorted((k, v[0], v[2], v[3]) for k, v in tasks.items())), tuple(sorted(free_w)))))
        if "recorded" in phs:
            prev_rec = phs["recorded"][1]
    return out


# ------------------------------------------------------------------------------------------ C07
def mon_c07(ex, info, col):
    out = []
    p = ex.project
    m = ex.m
    absn = absn_of(ex)
    if ex.opts.get("post_remove") or ex.opts.get("post_reverse"):
        absn = set()  # the absence steps were deleted from the result afterwards / the result was reversed by hand (resources are logged ABSENCE at absence steps wherever those are now)
    n = len(p.cost_list)
    col.checks["c07.project-vs-org"] += 1
    if list(p.cost_list) != list(p.organization.cost_list):
        out.append(V("C07", "C07:project-cost-list-differs-from-organization", ex, {"project": list(p.cost_list), "organization": list(p.organization.cost_list)}))
    total = 0.0
    groups = []
    for team in p.organization.team_list:
        groups.append(("team", team, team.worker_list))
    for wp in p.organization.workplace_list:
        groups.append(("workplace", wp, wp.facility_list))
    for k in range(n):
        gsum = 0.0
        for gkind, g, members in groups:
            msum = 0.0
            for r in members:
                col.checks["c07.member"] += 1
                if k >= len(r.cost_list) or k >= len(r.state_record_list):
                    out.append(V("C07", "C07:member-log-shorter-than-project-cost-list", ex, {"member": r.ID, "k": k}))
                    continue
                spec_rate = (info.workers.get(r.ID) or info.facilities.get(r.ID) or {}).get("cost", 0.0)
                want = spec_rate if (int(r.state_record_list[k]) == S.R_WORKING and k not in absn) else 0.0
                if abs(r.cost_list[k] - want) > TOL:
                    sig = "C07:charged-at-project-absence-step" if k in absn else ("C07:non-WORKING-resource-charged" if want == 0.0 else "C07:WORKING-resource-not-charged-its-rate")
                    out.append(V("C07", sig, ex, {"member": r.ID, "k": k, "charged": r.cost_list[k], "expected": want, "state": int(r.state_record_list[k])}))
                if want > 0:
                    col.nontrivial.add(hash((info.key, r.ID, want, k in absn)))
                msum += r.cost_list[k]
                total += want
            col.checks["c07.group"] += 1
            if k >= len(g.cost_list):
                out.append(V("C07", "C07:%s-cost-log-shorter-than-project" % gkind, ex, {gkind: g.ID, "k": k}))
                continue
            if abs(g.cost_list[k] - msum) > TOL:
                out.append(V("C07", "C07:%s-cost-not-sum-of-members" % gkind, ex, {gkind: g.ID, "k": k, "logged": g.cost_list[k], "sum": msum}))
            gsum += g.cost_list[k]
        col.checks["c07.org"] += 1
        if k < len(p.organization.cost_list) and abs(p.organization.cost_list[k] - gsum) > TOL:
            out.append(V("C07", "C07:organization-cost-not-sum-of-teams-and-workplaces", ex, {"k": k, "logged": p.organization.cost_list[k], "sum": gsum}))
    col.checks["c07.total"] += 1
    if abs(sum(p.cost_list) - total) > 1e-6:
        out.append(V("C07", "C07:total-cost-not-rate-times-working-steps", ex, {"total": sum(p.cost_list), "expected": total}))
    return out


# ------------------------------------------------------------------------------------------ C14
def mon_c14(ex, info, col):
    out = []
    last = {}
    for t, ph, working, sn in ex.trace:
        for cn, (cs, wp) in sn["components"].items():
            tstates = [sn["tasks"][tn][0] for tn in info.comp_tasks[cn]]
            col.checks["c14.live"] += 1
            allfin = all(s == S.T_FINISHED for s in tstates)
            if (cs == S.C_FINISHED) != allfin:
                out.append(V("C14", "C14:FINISHED-iff-all-tasks-FINISHED-broken", ex, {"t": t, "phase": ph, "component": cn, "state": cs, "tasks": tstates}))
            if any(s == S.T_WORKING for s in tstates) and cs != S.C_WORKING:
                out.append(V("C14", "C14:not-WORKING-while-a-task-is-WORKING", ex, {"t": t, "phase": ph, "component": cn, "state": cs, "tasks": tstates}))
            if any(s in (S.T_READY, S.T_WORKING) for s in tstates) and cs == S.C_NONE:
                out.append(V("C14", "C14:NONE-while-a-task-is-READY-or-WORKING", ex, {"t": t, "phase": ph, "component": cn, "tasks": tstates}))
            if cn in last:
                if last[cn] != S.C_NONE and cs == S.C_NONE:
                    out.append(V("C14", "C14:returned-to-NONE", ex, {"t": t, "phase": ph, "component": cn}))
                if last[cn] == S.C_FINISHED and cs != S.C_FINISHED:
                    out.append(V("C14", "C14:left-FINISHED", ex, {"t": t, "phase": ph, "component": cn, "to": cs}))
            last[cn] = cs
            if len(set(tstates)) > 1:
                col.nontrivial.add(hash((info.key, cn, tuple(tstates), cs)))
    # logs (display rule: at a project-wide absence step WORKING is logged as READY, for tasks and components alike)
    absn = absn_of(ex)
    for cn in info.comps:
        c = ex.m.byname[cn]
        clog = [int(s) for s in c.state_record_list]
        tlogs = [[int(s) for s in ex.m.byname[tn].state_record_list] for tn in info.comp_tasks[cn]]
        for k in range(len(clog)):
            col.checks["c14.log"] += 1
            ts = [tl[k] for tl in tlogs if k < len(tl)]
            if len(ts) != len(tlogs):
                continue
            allfin = all(s == S.T_FINISHED for s in ts)
            if (clog[k] == S.C_FINISHED) != allfin:
                out.append(V("C14", "C14:logged-FINISHED-iff-all-tasks-FINISHED-broken", ex, {"k": k, "component": cn, "state": clog[k], "tasks": ts}))
            if any(s == S.T_WORKING for s in ts) and clog[k] != S.C_WORKING:
                out.append(V("C14", "C14:logged-not-WORKING-while-a-task-is-WORKING", ex, {"k": k, "component": cn, "state": clog[k], "tasks": ts}))
            if any(s in (S.T_READY, S.T_WORKING) for s in ts) and clog[k] == S.C_NONE:
                out.append(V("C14", "C14:logged-NONE-while-a-task-is-READY-or-WORKING", ex, {"k": k, "component": cn, "tasks": ts}))
            # (the logs of a backward run that were reversed into forward-time reading run the life cycle backwards: no monotonicity claim)
            if k > ex.log_start and not (ex.opts.get("backward") and ex.opts.get("rev", True)):
                if clog[k - 1] != S.C_NONE and clog[k] == S.C_NONE:
                    out.append(V("C14", "C14:logged-returned-to-NONE", ex, {"k": k, "component": cn, "log": clog}))
                if clog[k - 1] == S.C_FINISHED and clog[k] != S.C_FINISHED:
                    out.append(V("C14", "C14:logged-left-FINISHED", ex, {"k": k, "component": cn, "log": clog}))
    return out


# ------------------------------------------------------------------------------------------ C10
def mon_c10(ex, info, col):
    out = []
    bs = ex.by_step()
    absn = absn_of(ex)
    for t in sorted(bs):
        phs = bs[t]
        if "allocated" not in phs:
            continue
        working, sa = phs["allocated"]
        # whether step t is a project-wide absence step is decided by the list given to simulate(), not by the library's flag
        col.checks["c10.step-kind"] += 1
        working = ex.lib_working.get(t, working)  # here the library's own flag is the thing under test
        if (t in absn) != (working is False):
            out.append(V("C10", "C10:project-absence-step-treated-as-working-step" if t in absn else "C10:working-step-treated-as-project-absence-step", ex,
                         {"t": t, "absence_list": list(ex.opts.get("absence") or ()), "library_working_flag": working}))
        if t in absn:
            col.checks["c10.absence-step"] += 1
            col.nontrivial.add(hash((info.key, "P", tuple(sorted((k, v[0], round(v[1], 6)) for k, v in sa["tasks"].items())))))
            su = phs.get("updated", (None, None))[1]
            sr = phs.get("recorded", (None, None))[1]
            for tn in info.tnames:
                if su is not None:
                    if len(sa["tasks"][tn][2]) > len(su["tasks"][tn][2]) or len(sa["tasks"][tn][3]) > len(su["tasks"][tn][3]) or \
                            any(w not in su["tasks"][tn][2] for w in sa["tasks"][tn][2]):
                        out.append(V("C10", "C10:allocation-at-project-absence-step", ex, {"t": t, "task": tn, "before": su["tasks"][tn][2:4], "after": sa["tasks"][tn][2:4]}))
                if su is not None and sr is not None:
                    d = su["tasks"][tn][1] - sr["tasks"][tn][1]
                    if working is not False:
                        continue  # already reported above as a step of the wrong kind
                    if not info.is_auto(tn):
                        if abs(d) > TOL:
                            out.append(V("C10", "C10:non-automatic-task-progressed-at-project-absence-step", ex, {"t": t, "task": tn, "decrease": d}))
                    else:
                        # an automatic task that can run (READY or WORKING after the update, work left) progresses at an
                        # absence step exactly when the flag is set; component-bound automatic tasks need a placement
                        # first and are only claimed once they are WORKING
                        us = su["tasks"][tn]
                        runnable = us[0] == S.T_WORKING or (us[0] == S.T_READY and tn not in info.task_comp)
                        if us[1] < EPS and us[0] == S.T_WORKING:
                            runnable = sa["tasks"][tn][0] == S.T_WORKING  # blocked by a finish dependency: no claim beyond the state
                        want = info.unit(tn) if (ex.opts.get("auto_abs") and runnable) else 0.0
                        if ex.opts.get("auto_abs") and us[0] == S.T_READY and tn in info.task_comp:
                            continue  # whether a component-bound automatic task can start now depends on its placement: no claim
                        col.checks["c10.auto"] += 1
                        if abs(d - want) > TOL:
                            sig = "C10:automatic-task-progressed-at-absence-step-without-flag" if want == 0.0 else "C10:automatic-task-did-not-progress-at-absence-step-with-flag"
                            out.append(V("C10", sig, ex, {"t": t, "task": tn, "decrease": d, "expected": want}))
        else:
            # individually absent resources contribute nothing: progress equals the oracle's contribution
            if "performed" in phs:
                sp_ = phs["performed"][1]
                for tn in info.tnames:
                    ws, fs = sa["tasks"][tn][2], sa["tasks"][tn][3]
                    if any(res_absent(ex, info, r, t) for r in ws + fs):
                        col.checks["c10.absent-resource"] += 1
                        col.nontrivial.add(hash((info.key, "R", tn, ws, fs, t in absn)))
                        c = contribution(ex, info, tn, t, working, sa)
                        d = sa["tasks"][tn][1] - sp_["tasks"][tn][1]
                        if abs(d - c) > TOL:
                            out.append(V("C10", "C10:absent-resource-contributed-progress", ex, {"t": t, "task": tn, "decrease": d, "expected": c, "workers": ws, "facilities": fs}))
    # logs: ABSENCE and zero cost
    p = ex.project
    n = len(p.cost_list)
    # (results whose logs were reversed - by backward_simulate or by hand - are not on the time axis of the list given to the run: for them the stored-list clause below speaks)
    logs_reversed = bool(ex.opts.get("post_reverse")) or (bool(ex.opts.get("backward")) and bool(ex.opts.get("rev", True)))
    for k in (range(n) if not logs_reversed else ()):
        pa = k in absn
        if pa:
            for name, lst in (("project", p.cost_list), ("organization", p.organization.cost_list)):
                if k < len(lst) and lst[k] != 0.0:
                    out.append(V("C10", "C10:cost-charged-at-project-absence-step", ex, {"k": k, "level": name, "cost": lst[k]}))
            for g in list(p.organization.team_list) + list(p.organization.workplace_list):
                if k < len(g.cost_list) and g.cost_list[k] != 0.0:
                    out.append(V("C10", "C10:cost-charged-at-project-absence-step", ex, {"k": k, "level": g.ID, "cost": g.cost_list[k]}))
        for rn in list(info.workers) + list(info.facilities):
            r = ex.m.byname[rn]
            if k >= len(r.state_record_list):
                continue
            ra = res_absent(ex, info, rn, k)
            if pa or ra:
                col.checks["c10.log"] += 1
                if int(r.state_record_list[k]) != S.R_ABSENCE:
                    out.append(V("C10", "C10:absent-resource-not-logged-ABSENCE" + (":project-wide" if pa else ":individual"), ex, {"k": k, "resource": rn, "state": int(r.state_record_list[k])}))
                if k < len(r.cost_list) and r.cost_list[k] != 0.0:
                    out.append(V("C10", "C10:absent-resource-charged" + (":project-wide" if pa else ":individual"), ex, {"k": k, "resource": rn, "cost": r.cost_list[k]}))
    # the list the project keeps (what remove_absence_time_list() will delete) and the logs are on the same time axis, however the run was made
    # (forward, backward with or without reversal, reversed by hand): every in-range entry names a step at which everybody is logged ABSENCE at no cost
    if not ex.opts.get("post_insert") and not ex.opts.get("post_remove") and ex.error is None:
        for k in sorted(set(p.absence_time_list)):
            if not isinstance(k, int) or k < -n or k >= n:
                continue
            stored_k = k
            if k < 0:
                k = n + k  # (a negative entry is an index too: it is the step counted from the end that remove_absence_time_list() would delete)
            col.checks["c10.stored-list-vs-logs"] += 1
            bad = [rn for rn in list(info.workers) + list(info.facilities) if k < len(ex.m.byname[rn].state_record_list) and int(ex.m.byname[rn].state_record_list[k]) != S.R_ABSENCE]
            if bad or p.cost_list[k] != 0.0:
                out.append(V("C10", "C10:stored-absence-list-names-a-step-that-is-not-an-absence-step-in-the-logs", ex,
                             {"k": stored_k, "stored_list": list(p.absence_time_list), "resources_not_ABSENCE": bad[:4], "project_cost": p.cost_list[k]}))
    return out


# ------------------------------------------------------------------------------------------ C13
def _top_most(info, placed):
    """components of `placed` none of whose ancestors is also in `placed` (a nested assembly counts once)."""
    placed = set(placed)

    def has_placed_ancestor(c, seen=()):
        for p in info.comp_parents.get(c, []):
            if p in placed or (p not in seen and has_placed_ancestor(p, seen + (c,))):
                return True
        return False

    return [c for c in placed if not has_placed_ancestor(c)]


def _shape(info, cn):
    if cn is None:
        return "no-component"
    if info.comp_parents.get(cn) or info.comp_children.get(cn):
        return "nested"
    if len(info.comp_tasks.get(cn, [])) > 1:
        return "multi-task"
    return "flat"


def _left_behind_kinds(ex, info):
    """(component, workplace) -> how a nested component came to be listed by a workplace it does not report, judged at the first snapshot that shows it:
    the top-most ancestor whose location changed in that transition is the assembly that was moved.  None = the part's own parent is neither the moved
    assembly nor was it listed at that workplace (the recorded deep-nesting finding); anything else is a different history and gets its own signature."""
    kinds, prev = {}, None
    for _t, _ph, _w, sn in ex.trace:
        comps, wps = sn["components"], sn["workplaces"]
        for wpn, lst in wps.items():
            for cn in lst:
                parents = info.comp_parents.get(cn)
                if not parents or comps[cn][1] == wpn:
                    continue
                if prev is not None and cn in prev["workplaces"].get(wpn, ()) and prev["components"][cn][1] != wpn:
                    continue  # (same episode as in the previous snapshot)
                kind = None
                if prev is not None:
                    pc = prev["components"]
                    anc, todo = [], list(parents)
                    while todo:
                        a_ = todo.pop()
                        if a_ not in anc:
                            anc.append(a_)
                            todo += info.comp_parents.get(a_, [])
                    changed = [a_ for a_ in anc if pc[a_][1] != comps[a_][1]]
                    movers = [a_ for a_ in changed if not any(g in changed for g in info.comp_parents.get(a_, []))]
                    if any(p_ in movers for p_ in parents):
                        kind = "direct-child-left-behind-when-its-assembly-moved"
                    elif any(pc[p_][1] == wpn for p_ in parents):
                        kind = "part-left-behind-although-its-sub-assembly-was-taken-from-the-same-workplace"
                if kind is not None or (cn, wpn) not in kinds:
                    kinds[(cn, wpn)] = kind
        prev = sn
    return kinds


def _step_moves(ex, phs, t):
    """component -> places it reported during the allocation of step t (the library's "set None, then set" pattern and repeated values collapsed)"""
    su = phs["updated"][1]
    cur = {cn: v[1] for cn, v in su["components"].items()}
    seqs = {cn: [cur[cn]] for cn in cur}
    for ev in ex.placements.get((t, "alloc"), []):
        if ev[0] == "comp_set":
            seqs[ev[1]].append(ev[2])
    out = {}
    for cn, seq in seqs.items():
        vals = [seq[0]]
        for i in range(1, len(seq)):
            v = seq[i]
            if v is None and i + 1 < len(seq):
                continue
            if v != vals[-1]:
                vals.append(v)
        out[cn] = vals
    return out


C13_REFINE = True  # False: count what the narrower keys would re-label (coverage.extra), but keep the shape-only keys


def _line(info, cn):
    """cn with all its ancestors and descendants"""
    seen, todo = [cn], [cn]
    while todo:
        c = todo.pop()
        for n in info.comp_parents.get(c, []):
            if n not in seen:
                seen.append(n)
                todo.append(n)
    todo = [cn]
    while todo:
        c = todo.pop()
        for n in info.comp_children.get(c, []):
            if n not in seen:
                seen.append(n)
                todo.append(n)
    return seen


def _whole_run_observed(ex):
    o = ex.opts
    return not any(o.get(k) for k in ("resume_from", "presim", "presim_back", "alloc_fault", "build_from", "backward")) and ex.log_start == 0 and bool(ex.trace)


def mon_c13(ex, info, col):
    out = []
    bs = ex.by_step()
    lb = _left_behind_kinds(ex, info)
    twice = {}  # multi-task component -> first observed step at which it was placed twice with at least two of its tasks READY

    def narrow(sig_shape, known_history, what):
        """shape tag of a signature: the recorded findings keep the bare shape, a violation of the same clause with another history gets a suffix"""
        if known_history:
            return sig_shape
        col.extra["c13.other-history:%s:%s" % (sig_shape, what)] += 1
        return "%s:%s" % (sig_shape, what) if C13_REFINE else sig_shape

    for t in sorted(bs):
        if "updated" in bs[t]:
            su_ = bs[t]["updated"][1]
            for cn, vals in _step_moves(ex, bs[t], t).items():
                if len(vals) > 2 and _shape(info, cn) == "multi-task" and sum(1 for tn in info.comp_tasks[cn] if su_["tasks"][tn][0] == S.T_READY) >= 2:
                    twice.setdefault(cn, t)
    whole = _whole_run_observed(ex)
    for t in sorted(bs):
        phs = bs[t]
        for ph, (working, sn) in phs.items():
            comps, wps = sn["components"], sn["workplaces"]
            where = {}
            for wpn, lst in wps.items():
                col.checks["c13.consistency"] += 1
                if len(set(lst)) != len(lst):
                    out.append(V("C13", "C13:component-listed-twice-at-a-workplace", ex, {"t": t, "phase": ph, "workplace": wpn, "placed": lst}))
                for cn in lst:
                    where.setdefault(cn, []).append(wpn)
                    if comps[cn][1] != wpn:
                        shape = _shape(info, cn)
                        if shape == "nested":
                            anc, todo = set(), list(info.comp_parents.get(cn, []))
                            while todo:
                                a_ = todo.pop()
                                if a_ not in anc:
                                    anc.add(a_)
                                    todo += info.comp_parents.get(a_, [])
                            anc_places = set(comps[a_][1] for a_ in anc)
                            # the part reports what its assembly reports (a workplace, or nowhere once the assembly has left) and is still listed by the
                            # workplace it was processed in - or the other way round: it does not report where its assembly is
                            follows = bool(anc) and anc_places == {comps[cn][1]}
                            shape = "nested:part-follows-its-assembly-but-its-own-workplace-still-lists-it" if (follows and wpn not in anc_places) else "nested:part-does-not-report-where-its-assembly-is"
                            if lb.get((cn, wpn)):
                                shape = "nested:" + lb[(cn, wpn)]
                        out.append(V("C13", "C13:workplace-lists-component-that-reports-another-place[%s]" % shape, ex,
                                     {"t": t, "phase": ph, "workplace": wpn, "component": cn, "component_says": comps[cn][1]}))
                used = sum((1.0 if info.comps[c].get("space") is None else info.comps[c]["space"]) for c in _top_most(info, lst))
                cap = info.wp[wpn].get("cap")
                cap = 1.0 if cap is None else cap
                if lst:
                    col.nontrivial.add(hash((info.key, wpn, tuple(sorted(lst)))))
                if used > cap + 1e-8:
                    out.append(V("C13", "C13:capacity-exceeded[%s]" % ("nested" if any(_shape(info, c) == "nested" for c in lst) else "flat"), ex, {"t": t, "phase": ph, "workplace": wpn, "placed": lst, "used": used, "capacity": cap}))
            for cn, (cs, wpn) in comps.items():
                if len(where.get(cn, [])) > 1:
                    kd = [lb[(cn, w_)] for w_ in where[cn] if lb.get((cn, w_))]
                    out.append(V("C13", "C13:component-at-several-workplaces[%s]" % ("nested:" + kd[0] if kd else _shape(info, cn)), ex, {"t": t, "phase": ph, "component": cn, "workplaces": where[cn]}))
                if wpn is not None and cn not in wps.get(wpn, ()):
                    out.append(V("C13", "C13:component-reports-place-but-workplace-does-not-list-it[%s]" % _shape(info, cn), ex, {"t": t, "phase": ph, "component": cn, "workplace": wpn}))
            if ph == "updated":
                for cn in info.comps:
                    if info.comp_parents.get(cn):
                        continue
                    if all(sn["tasks"][tn][0] == S.T_FINISHED for tn in info.comp_tasks[cn]):
                        col.checks["c13.leave"] += 1
                        stack = [cn]
                        while stack:
                            c = stack.pop()
                            # a descendant is only required to have left when its own tasks are FINISHED too
                            own_done = all(sn["tasks"][tn][0] == S.T_FINISHED for tn in info.comp_tasks[c])
                            if comps[c][1] is not None and own_done and (c != cn or info.comp_tasks[cn] or True):
                                out.append(V("C13", "C13:still-placed-after-top-level-tasks-FINISHED[%s]" % _shape(info, c), ex, {"t": t, "top": cn, "component": c, "workplace": comps[c][1]}))
                            stack.extend(info.comp_children.get(c, []))
            if ph in ("allocated", "performed", "recorded"):
                for tn in info.tnames:
                    if not info.needs_facility(tn):
                        continue
                    fs = sn["tasks"][tn][3]
                    cn = info.task_comp.get(tn)
                    if fs and cn is not None:
                        col.checks["c13.site"] += 1
                        wpn = comps[cn][1]
                        for f in fs:
                            if info.fac_wp[f] != wpn:
                                shp_ = _shape(info, cn)
                                if shp_ == "multi-task":
                                    shp_ = narrow(shp_, (cn in twice and twice[cn] <= t) or not whole, "never-placed-twice-in-one-step-before")
                                out.append(V("C13", "C13:task-works-with-facility-of-another-workplace[%s]" % shp_, ex,
                                             {"t": t, "phase": ph, "task": tn, "facility": f, "facility_workplace": info.fac_wp[f], "component": cn, "component_workplace": wpn}))
        # placement events of the allocation part of this step
        if "updated" in phs:
            su = phs["updated"][1]
            for cn, vals in _step_moves(ex, phs, t).items():
                moves = len(vals) - 1
                col.checks["c13.moves"] += 1
                shp = shp2 = _shape(info, cn)
                moved_at_work = any(a != b for a, b in zip(vals, vals[1:])) and any(su["tasks"][tn][0] == S.T_WORKING for tn in info.comp_tasks[cn])
                if shp == "multi-task" and (moves > 1 or moved_at_work):
                    n_ready = sum(1 for tn in info.comp_tasks[cn] if su["tasks"][tn][0] == S.T_READY)
                    shp2 = narrow(shp, n_ready >= 2, "fewer-than-two-of-its-tasks-READY")
                elif shp == "nested" and (moves > 1 or moved_at_work):
                    # the recorded finding: two components of one assembly line have tasks that are READY / WORKING in the same step
                    active = [c_ for c_ in _line(info, cn) if any(su["tasks"][tn][0] in (S.T_READY, S.T_WORKING) for tn in info.comp_tasks.get(c_, []))]
                    n_ready = sum(1 for tn in info.comp_tasks[cn] if su["tasks"][tn][0] == S.T_READY)  # (... or the part itself carries two READY tasks: the multi-task finding)
                    shp2 = narrow(shp, len(active) >= 2 or n_ready >= 2, "no-second-active-component-in-its-assembly")
                if moves > 1:
                    out.append(V("C13", "C13:component-moved-more-than-once-in-one-step[%s]" % shp2, ex, {"t": t, "component": cn, "places": vals}))
                for a, b in zip(vals, vals[1:]):
                    if b is not None:
                        col.nontrivial.add(hash((info.key, "move", cn, a, b)))
                        ins = info.wp_inputs.get(b, [])
                        if ins and a is not None and a not in ins:
                            out.append(V("C13", "C13:entered-workplace-not-from-its-input-workplaces[%s]" % _shape(info, cn), ex, {"t": t, "component": cn, "from": a, "to": b, "inputs": ins}))
                    if a != b and any(su["tasks"][tn][0] == S.T_WORKING for tn in info.comp_tasks[cn]):
                        out.append(V("C13", "C13:component-moved-while-a-task-of-it-is-WORKING[%s]" % shp2, ex, {"t": t, "component": cn, "from": a, "to": b}))
    # logs
    m = ex.m
    for cn in info.comps:
        c = m.byname[cn]
        for k, wpn in enumerate(c.placed_workplace_id_record):
            col.checks["c13.log"] += 1
            if wpn is not None:
                rec = m.byname[wpn].placed_component_id_record
                if k < len(rec) and rec[k] is not None and cn not in rec[k]:
                    out.append(V("C13", "C13:logs-disagree-component-placed-but-workplace-log-omits-it", ex, {"k": k, "component": cn, "workplace": wpn}))
    for wpn in info.wp:
        w = m.byname[wpn]
        for k, lst in enumerate(w.placed_component_id_record):
            if lst is None:
                continue
            for cn in lst:
                rec = m.byname[cn].placed_workplace_id_record
                if k < len(rec) and rec[k] != wpn:
                    out.append(V("C13", "C13:logs-disagree-workplace-lists-component-logged-elsewhere[%s]" % ("nested:" + lb[(cn, wpn)] if lb.get((cn, wpn)) else _shape(info, cn)), ex,
                                 {"k": k, "component": cn, "workplace": wpn, "component_log": rec[k]}))
    for tn in info.tnames:
        if not info.needs_facility(tn) or tn not in info.task_comp:
            continue
        task = m.byname[tn]
        crec = m.byname[info.task_comp[tn]].placed_workplace_id_record
        for k, fs in enumerate(task.allocated_facility_id_record):
            if fs and k < len(crec):
                for f in fs:
                    if info.fac_wp[f] != crec[k]:
                        shp_ = _shape(info, info.task_comp[tn])
                        if shp_ == "multi-task":
                            shp_ = narrow(shp_, info.task_comp[tn] in twice or not whole, "never-placed-twice-in-one-step-before")
                        out.append(V("C13", "C13:logged-facility-of-another-workplace[%s]" % shp_, ex, {"k": k, "task": tn, "facility": f, "component_workplace": crec[k]}))
    return out


def carry_in_pair(ex, info, sa, cn, tn, w, t):
    """for an UNPLACED top-level component cn (task tn): an assigned workplace with room for it (judged by where the components are) and a FREE eligible machine
    there that worker w can operate -> (workplace, machine), else None.  Room and free resources only shrink during a step, so what holds at the end of the
    allocation held at the task's own turn."""
    if info.comp_parents.get(cn):
        return None
    tasks = sa["tasks"]
    _sz = lambda c: 1.0 if info.comps[c].get("space") is None else info.comps[c]["space"]  # noqa: E731
    below, todo = [], list(info.comp_children.get(cn, []))
    while todo:
        c_ = todo.pop()
        if c_ not in below:
            below.append(c_)
            todo += info.comp_children.get(c_, [])
    size = _sz(cn) + sum(_sz(c_) for c_ in below)
    for wp2 in sorted(info.wp):
        if tn not in info.wp_targets[wp2]:
            continue
        cap = info.wp[wp2].get("cap")
        cap = 1.0 if cap is None else (float("inf") if cap == "inf" else cap)
        used = sum(_sz(c) for c in info.comps if sa["components"][c][1] == wp2
                   and not (not info.comp_parents.get(c) and info.comp_tasks.get(c) and all(tasks[x][0] == S.T_FINISHED for x in info.comp_tasks[c])))
        if not cap - used > size - 1e-8:
            continue
        if info.wp_inputs.get(wp2):
            pass  # (an unplaced component may enter a workplace that has input workplaces)
        for f in info.wp_facilities.get(wp2, []):
            fst, fa = sa["facilities"][f]
            if fst != S.R_FREE or fa or res_absent(ex, info, f, t):
                continue
            if info.facility_static_ok(f, tn) is not None or not info.can_operate(w, f):
                continue
            return wp2, f
    return None
