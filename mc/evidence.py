"""Evidence writer: /verif/evidence/<id>.json, rewritten by every run from measured counts."""
import json
import os

HERE = os.path.dirname(os.path.dirname(os.path.abspath(__file__)))


def write(pid, tier, seed, col, meta, wall, new=0, known=()):
    level = meta.get("level", "model_checking")
    cov = {
        "evaluations": int(col.evaluations),
        "distinct_nontrivial": len(col.nontrivial),
        "rule": meta.get("rule", ""),
        "samples": (col.samples or meta.get("samples") or [{"note": "no sample recorded by this run", "rule": meta.get("rule", "")[:200]}])[:6],
        "states": len(col.states),
        "transitions": len(col.transitions),
        "traces_validated_against_impl": int(col.evaluations),
        "exhaustive": bool(meta.get("exhaustive", True)) and not col.caps,
        "bounds": meta.get("bounds", {}),
        "caps_hit": col.caps,
        "monitor_evaluations": dict(col.checks),
        "distinct_outcomes": len(col.outcomes),
        "outcome_histogram_top": [[str(k), v] for k, v in col.outcomes.most_common(8)],
        "aborted_executions": dict(col.aborted),
        "violation_signatures": dict(col.viol_sigs),
        "known_findings_seen": list(known),
        "explanation": meta.get("explanation", ""),
    }
    for k, v in col.extra.items():
        cov.setdefault("extra", {})[k] = v
    ev = {
        "property_id": pid,
        "tier": tier,
        "seed": int(seed),
        "level": level,
        "coverage": cov,
        "assumptions": meta.get("assumptions", []),
        "wall_s": round(float(wall), 2),
        "violations": int(new),
    }
    base = os.environ.get("VERIF_OUT", HERE)  # mutant trials on scratch copies write elsewhere
    os.makedirs(os.path.join(base, "evidence"), exist_ok=True)
    path = os.path.join(base, "evidence", "%s.json" % pid)
    tmp = path + ".tmp"
    with open(tmp, "w") as f:
        json.dump(ev, f, indent=1, default=str)
    os.replace(tmp, path)
    return path
