"""Tiny independent oracles."""


def cpm(n, fs_links, rem, t):
    """Longest-path CPM on nodes 0..n-1 with FS links [(i, j)], remaining work rem[i], at time t."""
    preds = {i: [] for i in range(n)}
    succs = {i: [] for i in range(n)}
    for i, j in fs_links:
        preds[j].append(i)
        succs[i].append(j)
    order = []
    indeg = {i: len(preds[i]) for i in range(n)}
    stack = [i for i in range(n) if indeg[i] == 0]
    while stack:
        i = stack.pop()
        order.append(i)
        for j in succs[i]:
            indeg[j] -= 1
            if indeg[j] == 0:
                stack.append(j)
    assert len(order) == n, "cyclic"
    est = [0.0] * n
    eft = [0.0] * n
    for i in order:
        est[i] = max([float(t)] + [eft[p] for p in preds[i]])
        eft[i] = est[i] + rem[i]
    cpl = max(eft) if n else 0.0
    lst = [0.0] * n
    lft = [0.0] * n
    for i in reversed(order):
        lft[i] = min([lst[s] for s in succs[i]]) if succs[i] else cpl
        lst[i] = lft[i] - rem[i]
    return est, eft, lst, lft, cpl


def rle(seq):
    """Maximal runs: list of (value, start, length)."""
    out = []
    for k, v in enumerate(seq):
        if out and out[-1][0] == v:
            out[-1][2] += 1
        else:
            out.append([v, k, 1])
    return [tuple(x) for x in out]
