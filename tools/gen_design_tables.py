#!/usr/bin/env python3
"""Regenerate the generated blocks of DESIGN.md: the as-built coverage table (from evidence/*.json) and the
seeded-change detection table (from seeded/*/meta.json)."""
import glob
import json
import os
import re

HERE = os.path.dirname(os.path.dirname(os.path.abspath(__file__)))


def block(text, name, body):
    a, b = "<!-- BEGIN %s -->" % name, "<!-- END %s -->" % name
    if a not in text:
        return text.rstrip() + "\n\n" + a + "\n" + body + "\n" + b + "\n"
    return re.sub(re.escape(a) + r".*?" + re.escape(b), lambda m: a + "\n" + body + "\n" + b, text, flags=re.S)


def coverage_table():
    rows = ["| property | level | tier of last run | executions | states | transitions | non-trivial | bounds | known findings seen |", "|---|---|---|---|---|---|---|---|---|"]
    for f in sorted(glob.glob(os.path.join(HERE, "evidence", "C*.json"))):
        e = json.load(open(f))
        c = e["coverage"]
        b = "; ".join("%s=%s" % kv for kv in c.get("bounds", {}).items())
        rows.append("| %s | %s | %s | %d | %d | %d | %d | %s | %d |" % (e["property_id"], e["level"], e["tier"], c["evaluations"], c["states"], c["transitions"], c["distinct_nontrivial"], b, len(c.get("known_findings_seen", []))))
    return "\n".join(rows)


def seeded_table():
    rows = ["| change | written for | what the change is and what it needs to manifest | target check reports it | all checks that report it (full matrix, when run) |", "|---|---|---|---|---|"]
    for d in sorted(glob.glob(os.path.join(HERE, "seeded", "C*-*"))):
        m = json.load(open(os.path.join(d, "meta.json")))
        det = m.get("detected_by") or {}
        det = det if isinstance(det, dict) else {}
        q = det.get("quick")
        t = det.get("quick-target")
        need = (m.get("summary") or "").replace("|", "/")
        tcol = ("yes" if t else ("NO" if t == [] else ("yes" if (q and m["property"] in q) else "(not run)")))
        part = det.get("quick-partial")
        allcol = " ".join(q) if q else ("none" if q == [] else ("(some checks run: %s)" % " ".join(part) if part else "(not run)"))
        rows.append("| %s | %s | %s | %s | %s |" % (os.path.basename(d), m["property"], need[:330], tcol, allcol))
    return "\n".join(rows)


def main():
    p = os.path.join(HERE, "DESIGN.md")
    t = open(p).read()
    t = block(t, "COVERAGE TABLE", coverage_table())
    t = block(t, "SEEDED TABLE", seeded_table())
    open(p, "w").write(t)


if __name__ == "__main__":
    main()
