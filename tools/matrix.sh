#!/bin/sh
# tools/matrix.sh [TIER] [MUTANT_DIRS...] : for every seeded mutant, apply it to a scratch copy of /repo's HEAD (outside /repo and
# /verif), run every check against the copy (VERIF_REPO) and record which checks report a violation in seeded/<id>/meta.json.
# /repo itself and /verif/evidence are not touched.
cd "$(dirname "$0")/.." || exit 2
tier=${1:-quick}; [ $# -gt 0 ] && shift
dirs=${*:-$(ls -d seeded/C*-* )}
for d in $dirs; do
  scratch=$(mktemp -d /var/tmp/verif-mut.XXXXXX)
  git -C /repo archive HEAD | tar -x -C "$scratch"
  if ! (cd "$scratch" && patch -p1 -s < "$OLDPWD/$d/patch.diff"); then echo "$d: patch failed"; rm -rf "$scratch"; continue; fi
  det=""; sigs=""
  # MATRIX_MODE=target: only the check of the property the change was written for (recorded under "<tier>-target")
  if [ "$MATRIX_MODE" = "target" ]; then props=$(basename $d | cut -c2-3); else props="01 02 03 04 05 06 07 08 09 10 11 12 13 14 15 16 17 18 19 20"; fi
  for i in $props; do
    out=$(VERIF_REPO="$scratch" VERIF_OUT="$scratch/_verif_out" ./check C$i --tier $tier 2>&1); r=$?
    if [ $r -eq 1 ]; then det="$det C$i"; sigs="$sigs$(echo "$out" | grep 'sig=' | sed 's/ occurrences.*//; s/^ *sig=//' | head -4 | tr '\n' ';')";
    elif [ $r -ne 0 ]; then det="$det C$i(harness-error)"; fi
  done
  echo "$d DETECTED_BY:$det"
  python3 - "$d" "$tier${MATRIX_MODE:+-$MATRIX_MODE}" "$det" "$sigs" <<'PY'
import json, sys
d, tier, det, sigs = sys.argv[1:5]
p = d + "/meta.json"
m = json.load(open(p))
m.setdefault("detected_by", {})
if not isinstance(m["detected_by"], dict):
    m["detected_by"] = {}
m["detected_by"][tier] = det.split()
m.setdefault("signatures", {})[tier] = [s for s in sigs.split(";") if s]
m["what_was_run"] = "tools/matrix.sh: patch applied to a scratch copy of /repo HEAD, every ./check CNN --tier %s run with VERIF_REPO pointing at the copy" % tier
json.dump(m, open(p, "w"), indent=1)
PY
  rm -rf "$scratch"
done
