#!/usr/bin/env python3
"""tools/ingest_mutant.py CXX : verify the sub-agent's mutants in its scratch worktree /tmp/wt-CXX and keep them.

For N in 1,2: clean tree; demo must exit 0; apply mutantN.diff; the 176 tests must pass; demo must exit 1; undo.
Kept as /verif/seeded/CXX-N/{patch.diff, demo.py (path rewritten to /repo), NOTES.md, meta.json}.
"""
import json
import os
import re
import shutil
import subprocess
import sys

pid = sys.argv[1]
offset = int(sys.argv[2]) if len(sys.argv) > 2 else 0  # round 2 is kept as CXX-3, CXX-4
wt = "/tmp/wt-%s" % pid
out = os.path.join(wt, "_out")
HERE = os.path.dirname(os.path.dirname(os.path.abspath(__file__)))


def sh(cmd, **kw):
    return subprocess.run(cmd, shell=True, cwd=wt, capture_output=True, text=True, **kw)


def main():
    for n in (1, 2):
        diff = os.path.join(out, "mutant%d.diff" % n)
        demo = os.path.join(out, "demo%d.py" % n)
        if not (os.path.exists(diff) and os.path.exists(demo)):
            print(pid, n, "MISSING files")
            continue
        sh("git checkout -- pDESy")
        r0 = sh("/venv/bin/python _out/demo%d.py" % n)
        ap = sh("git apply _out/mutant%d.diff" % n)
        if ap.returncode != 0:
            print(pid, n, "patch does not apply:", ap.stderr[:200])
            continue
        touched = sh("git diff --stat").stdout
        t = sh("/venv/bin/python -m pytest -q -p no:cacheprovider --timeout=900 2>&1 | tail -1")
        r1 = sh("/venv/bin/python _out/demo%d.py" % n)
        sh("git checkout -- pDESy")
        ok = r0.returncode == 0 and r1.returncode == 1 and "176 passed" in t.stdout
        print(pid, n, "clean-demo rc=%d mutant-demo rc=%d tests=%s -> %s" % (r0.returncode, r1.returncode, t.stdout.strip()[:40], "KEEP" if ok else "REJECT"))
        if not ok:
            continue
        dst = os.path.join(HERE, "seeded", "%s-%d" % (pid, n + offset))
        os.makedirs(dst, exist_ok=True)
        shutil.copy(diff, os.path.join(dst, "patch.diff"))
        src = open(demo).read().replace(wt, "/repo")
        open(os.path.join(dst, "demo.py"), "w").write(src)
        notes = os.path.join(out, "NOTES.md")
        if os.path.exists(notes):
            shutil.copy(notes, os.path.join(dst, "NOTES.md"))
        meta = {
            "property": pid,
            "origin": "independent sub-agent given only the property text and a scratch worktree" + (" (second round: also told what the first-round changes were, to avoid repeating them)" if offset else ""),
            "files_touched": [l.split("|")[0].strip() for l in touched.splitlines() if "|" in l],
            "verified": {"tests_with_patch": t.stdout.strip(), "demo_rc_clean_tree": r0.returncode, "demo_rc_with_patch": r1.returncode,
                         "how": "in the scratch worktree: git apply; pytest (176 passed); demo exits 1; git checkout; demo exits 0"},
            "demo_output_with_patch": (r1.stdout + r1.stderr)[-600:],
            "needs_to_manifest": "see NOTES.md",
            "detected_by": None,
        }
        json.dump(meta, open(os.path.join(dst, "meta.json"), "w"), indent=1)


main()
