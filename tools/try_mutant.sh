#!/bin/sh
# tools/try_mutant.sh PATCH [TIER] [PROPS...] : apply PATCH to /repo, run the checks, undo the patch.
# Prints one line per property: DETECTED (exit 1 + VIOLATION line) / silent / error.  Always restores /repo.
patch=$(readlink -f "$1"); tier=${2:-quick}; shift; shift
props=${*:-"C01 C02 C03 C04 C05 C06 C07 C08 C09 C10 C11 C12 C13 C14 C15 C16 C17 C18 C19 C20"}
cd "$(dirname "$0")/.." || exit 2
if [ -n "$(git -C /repo status --porcelain --untracked-files=no)" ]; then echo "/repo not clean"; exit 2; fi
git -C /repo apply "$patch" || { echo "patch does not apply"; exit 2; }
# evidence and replay files written while a mutant is applied are not evidence about /repo: put the real ones back afterwards
keep=$(mktemp -d /var/tmp/verif-evidence.XXXXXX); cp -a evidence/. "$keep"/ 2>/dev/null
trap 'git -C /repo checkout -- . ; rm -rf evidence; mkdir -p evidence; cp -a "$keep"/. evidence/ 2>/dev/null; rm -rf "$keep"' EXIT INT TERM
det=""
for p in $props; do
  out=$(./check $p --tier $tier 2>&1); r=$?
  if [ $r -eq 1 ]; then det="$det $p"; echo "$p DETECTED: $(echo "$out" | grep -A1 '^VIOLATION' | grep 'sig=' | head -3 | cut -c1-220 | tr '\n' '|')";
  elif [ $r -eq 0 ]; then echo "$p silent";
  else echo "$p ERROR rc=$r: $(echo "$out" | tail -3 | tr '\n' ' ' | cut -c1-300)"; fi
done
echo "DETECTED_BY:$det"
