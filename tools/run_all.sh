#!/bin/sh
# run every check's quick (or $1) tier; print one line per property
cd "$(dirname "$0")/.." || exit 2
tier=${1:-quick}
rc=0
for i in 01 02 03 04 05 06 07 08 09 10 11 12 13 14 15 16 17 18 19 20; do
  out=$(./check C$i --tier $tier 2>&1); r=$?
  echo "C$i rc=$r $(echo "$out" | grep -c '^KNOWN-FINDING') known; $(echo "$out" | tail -1 | cut -c1-200)"
  echo "$out" | grep '^VIOLATION'
  [ $r -ne 0 ] && rc=1
done
exit $rc
