#!/bin/sh
# tools/try_copy.sh MUTANT_DIR TIER PROPS... : like try_mutant.sh but on a scratch copy of /repo HEAD (leaves /repo and evidence alone)
cd "$(dirname "$0")/.." || exit 2
d=$1; tier=$2; shift; shift
scratch=$(mktemp -d /var/tmp/verif-mut.XXXXXX)
git -C /repo archive HEAD | tar -x -C "$scratch"
(cd "$scratch" && patch -p1 -s < "$OLDPWD/$d/patch.diff") || { echo "patch failed"; rm -rf "$scratch"; exit 2; }
for p in "$@"; do
  out=$(VERIF_REPO="$scratch" VERIF_OUT="$scratch/_verif_out" ./check $p --tier $tier 2>&1); r=$?
  if [ $r -eq 1 ]; then echo "$d $p DETECTED: $(echo "$out" | grep 'sig=' | head -2 | cut -c1-260 | tr '\n' '|')";
  elif [ $r -eq 0 ]; then echo "$d $p silent"; else echo "$d $p ERROR rc=$r $(echo "$out" | tail -2 | tr '\n' ' ' | cut -c1-300)"; fi
done
rm -rf "$scratch"
