#!/venv/bin/python
"""Self-tests of the harness itself (not of pDESy):
  1. state merging in the environment explorer: merged and unmerged exploration of a sub-family reach
     the same set of canonical states and the same violation signatures;
  2. determinism: one execution replayed twice gives identical observations;
  3. evidence files validate against the schema (if jsonschema is importable).
Exit 0 when all hold, 2 otherwise."""
import json
import os
import sys

sys.path.insert(0, os.path.dirname(os.path.dirname(os.path.abspath(__file__))))
from mc import engines, families as F, monitors as M, runner, spec as S, stepcheck  # noqa: E402
from mc.info import Info  # noqa: E402


def sub_family():
    out = []
    for fl in list(F.flows(3, F.KINDS4, (1, 2)))[::37]:
        for lay in ("POOL2", "SOLO"):
            sp = F.with_teams(fl, lay)
            out.append((sp, {"rule": "TSLACK", "max_time": F.seq_bound(sp) + 8}))
            out.append((sp, {"rule": "FIFO", "max_time": F.seq_bound(sp) + 8}))
    for sp in list(F.fac_specs("quick"))[::29]:
        out.append((sp, {"rule": "TSLACK", "max_time": F.seq_bound(sp) + 8}))
    return out


def main():
    ok = True
    mons = [M.mon_c01, M.mon_c02, M.mon_c03, M.mon_c04, M.mon_c06, M.mon_c13, M.mon_c14]
    items = sub_family()
    res = {}
    for merge in (True, False):
        col = stepcheck.explore(items, mons, 4, 2, merge=merge)
        res[merge] = col
        print("merge=%s executions=%d states=%d transitions=%d violation_sigs=%s" % (merge, col.evaluations, len(col.states), len(col.transitions), sorted(col.viol_sigs)))
    if res[True].states != res[False].states:
        print("FAIL: merged exploration misses %d canonical states (and has %d extra)" % (len(res[False].states - res[True].states), len(res[True].states - res[False].states)))
        ok = False
    if set(res[True].viol_sigs) != set(res[False].viol_sigs):
        print("FAIL: verdicts differ between merged and unmerged exploration")
        ok = False
    if res[True].evaluations >= res[False].evaluations:
        print("note: merging did not save executions on this sub-family")
    # determinism of a single execution
    sp, opts = items[3]
    a = runner.run(sp, dict(opts, absence=[1], res_absence={"W0": [0]}, want_canon=True))
    b = runner.run(sp, dict(opts, absence=[1], res_absence={"W0": [0]}, want_canon=True))
    if json.dumps(S.dump(a.m), sort_keys=True, default=str) != json.dumps(S.dump(b.m), sort_keys=True, default=str) or a.canon != b.canon or a.trace != b.trace:
        print("FAIL: the same execution replayed twice differs")
        ok = False
    else:
        print("replay determinism ok (%d steps, %d snapshots)" % (a.steps, len(a.trace)))
    print("SELFTEST", "OK" if ok else "FAILED")
    return 0 if ok else 2


if __name__ == "__main__":
    sys.exit(main())
