#!/usr/bin/env python3
"""Regenerate /verif/MANIFEST.json from the table below (claims only properties whose module exists)."""
import json
import os
import subprocess

HERE = os.path.dirname(os.path.dirname(os.path.abspath(__file__)))

T = {
    "C01": ("model_checking", "3.C01", "explicit-state bounded-exhaustive exploration of the real simulate() over all small workflows x per-step absence answers, dependency-gate and lifecycle monitors on every phase of every step"),
    "C02": ("model_checking", "3.C02", "bounded-exhaustive exploration of the real simulate(); per-step arithmetic oracle for remaining work computed from the spec and the allocation snapshot"),
    "C03": ("model_checking", "3.C03", "bounded-exhaustive exploration under resource contention and absences; exclusivity / two-way consistency invariants on live state at every phase and on all logs"),
    "C04": ("model_checking", "3.C04", "bounded-exhaustive exploration over skill / targeting / solo / fixed-ID / absence combinations; eligibility predicate of the statement evaluated on every new allocation"),
    "C05": ("model_checking", "3.C05", "bounded-exhaustive exploration: every max_time cut of every small model, feasible and infeasible families, status/time oracle"),
    "C06": ("model_checking", "3.C06", "bounded-exhaustive exploration under contention; maximality-of-allocation and no-avoidable-waiting monitors at every step"),
    "C07": ("model_checking", "3.C07", "bounded-exhaustive exploration over cost layouts and absence answers; cost sums recomputed from state logs at every step and level"),
    "C08": ("model_checking", "3.C08", "breadth-first search over operation histories (simulate/resume/backward/initialize/reverse) on real objects with state de-duplication; log-alignment invariant after every operation and live-vs-log comparison at every recorded step"),
    "C09": ("model_checking", "3.C09", "exhaustive schedule exploration: all hash-rank permutations (every iteration order of the library's task/component sets), repeated runs and cross-run contamination histories; differential oracle on complete dumps"),
    "C10": ("model_checking", "3.C10", "bounded-exhaustive exploration of absence answers (project-wide to full depth); dead-time monitors per step and differential oracle simulate(abs)+remove == simulate()"),
    "C11": ("model_checking", "3.C11", "exhaustive enumeration of sort-function inputs over tied/missing keys and all rule modes; allocation-inversion monitor on exhaustively explored contention models"),
    "C12": ("model_checking", "3.C12", "breadth-first search over progress/tick histories on all FS DAGs with state de-duplication; independent longest-path CPM oracle after every update"),
    "C13": ("model_checking", "3.C13", "bounded-exhaustive exploration of products x workplaces x conveyor links x capacities; placement invariants on live state, logs and harness-logged placement events"),
    "C14": ("model_checking", "3.C14", "bounded-exhaustive exploration over all task-to-component assignments; component-state invariants at every phase and on the logs"),
    "C15": ("fault_enumeration", "3.C15", "every pause step k of every small model (crash-point enumeration), in memory and via JSON, differential oracle against the uninterrupted run"),
    "C16": ("model_checking", "3.C16", "exhaustive stage x save/load histories; JSON round-trip equality, reference-resolution and re-simulation oracles; exhaustive constructor-parameter audit"),
    "C17": ("fault_enumeration", "3.C17", "every (step, phase) exception injection point of the inner run x flags x models; structure identity and twin-differential oracles"),
    "C18": ("model_checking", "3.C18", "breadth-first search over insert/remove histories with all small index multisets on finished simulations; alignment, zero-cost and round-trip oracles"),
    "C19": ("exploration", "3.C19", "exhaustive enumeration of all state sequences up to a length bound; run-length-encoding oracle"),
    "C20": ("exploration", "3.C20", "exhaustive grid of sub-project results x unit pairs x positions; ceil-duration oracle on the parent log"),
}

NOTES = {
    "C01": "Trusted: CPython, the harness observer hook (4 add-only call sites), the spec builder. Bounds: <=4 tasks, horizon H, <=D deviations; sd 0.",
}


def main():
    props = [json.loads(l) for l in open(os.path.join(HERE, "properties.jsonl"))]
    try:
        hook = subprocess.check_output(["git", "-C", "/repo", "log", "--format=%H", "--grep=^verif hook"], text=True).split()
    except Exception:
        hook = []
    checks = []
    na = []
    for p in props:
        pid = p["id"]
        cat, ref, tech = T[pid]
        if os.path.exists(os.path.join(HERE, "mc", "props", pid.lower() + ".py")):
            checks.append(
                {
                    "property_id": pid,
                    "quick_cmd": "./check %s --tier quick" % pid,
                    "thorough_cmd": "./check %s --tier thorough" % pid,
                    "evidence_file": "/verif/evidence/%s.json" % pid,
                    "replay_cmd_template": "./check %s --replay {path}" % pid,
                    "engine": "mc",
                    "level_claimed": {"category": cat, "text": tech + "; within the bounds reported in the evidence file every execution is run on the real implementation and checked.", "design_ref": "DESIGN.md section " + ref},
                    "level_note": NOTES.get(pid, "Trusted base: CPython, the guarded observer hook, the harness' spec builder and oracles. Small-scope bounds as reported in evidence (models <=4 tasks, dyadic work/skills, sd 0)."),
                    "technique": "model checking: " + tech,
                }
            )
        else:
            na.append({"property_id": pid, "reason": "check under construction in this session (planned: %s)" % tech})
    man = {
        "version": 1,
        "setup_cmd": "true",
        "hooks": {
            "guard": "PDESY_VERIF",
            "enable": "PDESY_VERIF=1 in the environment before importing pDESy (mc/bootstrap.py sets it); no build step, sources are imported from /repo's working tree",
            "baseline_off_cmd": "cd /repo && env -u PDESY_VERIF /venv/bin/python -m pytest -ra -q -p no:cacheprovider --timeout=900 --continue-on-collection-errors",
            "source_commits": hook,
            "add_only": True,
        },
        "engines": [
            {"name": "mc", "path": "/verif/mc", "serves_properties": [c["property_id"] for c in checks],
             "kind_free_text": "hand-written explicit-state bounded-exhaustive explorer for the real pDESy objects (Python): E1 configuration enumeration, E2 per-step absence explorer with deviation bound and state merging, E3 operation-history BFS, E4 set-iteration-order schedules, E5 pause/fault points"}
        ],
        "checks": checks,
        "notes": "All checks run the implementation in /repo's working tree (imported fresh per process, guard on). See DESIGN.md.",
        "not_applicable": na,
    }
    with open(os.path.join(HERE, "MANIFEST.json"), "w") as f:
        json.dump(man, f, indent=1)
    print("claimed", len(checks), "not claimed", len(na))


if __name__ == "__main__":
    main()
